#!/bin/bash
# Runs every claimed check (default tier quick) against /repo and summarises; evidence/*.json is rewritten.
cd "$(dirname "$0")"
tier=${1:-quick}
rc=0
for p in $(python3 -c "import json;print(' '.join(c['property_id'] for c in json.load(open('MANIFEST.json'))['checks']))"); do
  out=$(./check $p --tier $tier 2>&1); code=$?
  echo "$p rc=$code $(echo "$out" | grep -E '^(C[0-9]+ tier|VIOLATION|KNOWN-FINDING|INCONCLUSIVE)' | head -3 | tr '\n' ' ' | cut -c1-260)"
  [ $code -ne 0 ] && rc=1
done
exit $rc
