#!/usr/bin/env python3
"""Regenerates MANIFEST.json from the table below (keeps it valid at all times)."""
import json, os
V = os.path.dirname(os.path.abspath(__file__))
BASELINE = json.load(open('/root/.vp/BASELINE.json'))['cmd'] if os.path.exists('/root/.vp/BASELINE.json') else ''
ALL = ["C%02d" % i for i in range(1, 31)]
# id -> (technique, level text, level note, design ref)
CLAIMED = json.load(open(os.path.join(V, 'manifest_claims.json')))
checks = []
for pid in ALL:
    if pid not in CLAIMED:
        continue
    c = CLAIMED[pid]
    checks.append(dict(
        property_id=pid,
        quick_cmd="./check %s --tier quick" % pid,
        thorough_cmd="./check %s --tier thorough" % pid,
        evidence_file="/verif/evidence/%s.json" % pid,
        replay_cmd_template="./check %s --replay {path}" % pid,
        engine="harness",
        level_claimed=dict(category=c.get("category", "exploration"), text=c["text"], design_ref=c.get("design_ref", "DESIGN.md §3 " + pid)),
        level_note=c["note"],
        technique=c["technique"],
    ))
na = [dict(property_id=p, reason=CLAIMED.get("_na", {}).get(p, "check not built yet in this session (property-based design exists in DESIGN.md §3); not claimed until its check runs green on the unchanged tree")) for p in ALL if p not in CLAIMED]
m = dict(
    version=1,
    setup_cmd="./check --setup",
    hooks=dict(guard="verif", enable="no hooks: every property is observed through exported API, generated code in scratch modules or the textmapper binary; nothing in /repo is guarded", baseline_off_cmd=BASELINE, source_commits=[], add_only=True),
    engines=[dict(name="harness", path="/verif/harness", serves_properties=[c["property_id"] for c in checks], kind_free_text="Go module (rapid v1.3.0 property tests + native go fuzz targets) linked against /repo through a replace directive; driven by ./check which shards by seed, merges evidence and maps exit codes")],
    checks=checks,
    notes="All claimed checks are generated-input search against an explicit oracle (property-based testing / fuzzing). Known findings: known_findings.txt. VERIF_SEED selects the rapid seed; native fuzzing runs only in the thorough tier.",
    not_applicable=na,
)
json.dump(m, open(os.path.join(V, 'MANIFEST.json'), 'w'), indent=1)
print("claimed", len(checks), "not claimed", len(na))
