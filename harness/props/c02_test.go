package props

import (
	"encoding/json"
	"fmt"
	"strings"
	"testing"

	"github.com/inspirer/textmapper/grammar"
	"pgregory.net/rapid"

	"verif/harness/internal/batch"
	"verif/harness/internal/ev"
)

// C02 — parser listener events reproduce the unique derivation (generated Go code).
// Oracle: derivations are produced from the extended-notation spec itself, so the chosen
// alternatives, optional parts and list lengths are known; expected events follow from the
// documented reporting rules (egSpec.events).

type c02Case struct {
	G     egSpec `json:"g"`
	Space bool   `json:"space"`
	Opt   bool   `json:"optimize"`
	Min   bool   `json:"minimize,omitempty"` // minimizeDFA
	Seed  int    `json:"seed"`
}

func c02Gen(t *rapid.T) c02Case {
	c := c02Case{
		G:     genEG(t, egGenOpts{MaxNT: 4, Terms: 6, NodePct: 60, Lists: true, MaxDepth: 2, NestedNode: true}),
		Space: rapid.Bool().Draw(t, "space"),
		Opt:   rapid.Bool().Draw(t, "optimize"),
		Seed:  rapid.IntRange(0, 1<<30).Draw(t, "seed"),
	}
	// Near-duplicates: the same list or optional group once more, with a different annotation on
	// its element (Textmapper shares extracted nonterminals between equal expressions; these are
	// equal up to the node name).
	if rapid.IntRange(0, 2).Draw(t, "twin") == 0 {
		var cands []*egPart
		var owner []int // nonterminal in which the candidate occurs
		var walk func(a *egAlt, nt int)
		walk = func(a *egAlt, nt int) {
			for _, p := range a.Parts {
				if p.K == "list" || p.K == "opt" {
					cands = append(cands, p)
					owner = append(owner, nt)
				}
				for _, s := range p.Alts {
					walk(s, nt)
				}
			}
		}
		for i, nt := range c.G.NTs {
			for _, a := range nt.Alts {
				walk(a, i)
			}
		}
		if len(cands) > 0 {
			k := rapid.IntRange(0, len(cands)-1).Draw(t, "twinOf")
			src := cands[k]
			var cp egPart
			js, _ := json.Marshal(src)
			json.Unmarshal(js, &cp)
			old := cp.Alts[0].Node
			for cp.Alts[0].Node == old {
				cp.Alts[0].Node = fmt.Sprintf("N%d", rapid.IntRange(0, 6).Draw(t, "twinNode"))
			}
			// the copy goes into the same or an earlier nonterminal: references only point to later
			// nonterminals, so the grammar stays free of recursion (every sentence form is finite)
			nt := c.G.NTs[rapid.IntRange(0, owner[k]).Draw(t, "twinNT")]
			a := nt.Alts[rapid.IntRange(0, len(nt.Alts)-1).Draw(t, "twinAlt")]
			a.Parts = append(a.Parts, &egPart{K: "t", Sym: rapid.IntRange(1, c.G.T-1).Draw(t, "twinGuard")}, &cp)
		}
	}
	c.Min = rapid.IntRange(0, 2).Draw(t, "minimize") == 0
	if rapid.IntRange(0, 2).Draw(t, "marks") == 0 {
		egAddMarks(t, &c.G) // state markers, in particular behind a nullable last part
	}
	if rapid.IntRange(0, 2).Draw(t, "cmdNullable") == 0 {
		egAddCmdNullable(t, &c.G) // nonterminals that are empty through an action-only alternative
	}
	if rapid.IntRange(0, 2).Draw(t, "noeoiInput") == 0 {
		// an additional no-eoi entry point `Zz -> Zn: X 'z'` whose node type occurs nowhere else
		first := c.G.Inputs[0].NT
		c.G.T++
		c.G.NTs = append(c.G.NTs, &egNT{Name: "Zz", Alts: []*egAlt{{Parts: []*egPart{{K: "n", Sym: first}, {K: "t", Sym: c.G.T - 1}}, Node: "Zn"}}})
		c.G.Inputs = append(c.G.Inputs, egInput{NT: len(c.G.NTs) - 1, Eoi: false})
	}
	return c
}

// eventAdapter: VerifRun returns "<events>|ok" or "<events>|err <off> <end>", events as
// "Type:off:end," in report order. arg "handler" is ignored here.
func eventAdapter(g *grammar.Grammar, files map[string]string) map[string]string {
	var sb strings.Builder
	fmt.Fprintf(&sb, "package %s\n\nimport (\n\t\"fmt\"\n\t\"strings\"\n)\n\n", g.Name)
	sb.WriteString("func VerifRun(entry int, src string, arg string) string {\n\tvar sb strings.Builder\n\tvar l Lexer\n\tl.Init(src)\n\tvar p Parser\n")
	listener := "func(t NodeType, offset, endoffset int) { fmt.Fprintf(&sb, \"%v:%d:%d,\", t, offset, endoffset) }"
	if len(g.Parser.UsedFlags) > 0 {
		listener = "func(t NodeType, flags NodeFlags, offset, endoffset int) { fmt.Fprintf(&sb, \"%v:%d:%d,\", t, offset, endoffset) }"
	}
	if g.Parser.IsRecovering {
		fmt.Fprintf(&sb, "\tnerr := 0\n\tp.Init(func(se SyntaxError) bool { nerr++; fmt.Fprintf(&sb, \"!%%d:%%d,\", se.Offset, se.Endoffset); return arg != \"stop\" && nerr < 50 }, %s)\n", listener)
	} else {
		fmt.Fprintf(&sb, "\tp.Init(%s)\n", listener)
	}
	sb.WriteString("\tvar err error\n\tswitch entry {\n")
	idx := 0
	for _, inp := range g.Parser.Inputs {
		if inp.Synthetic {
			continue
		}
		method := "Parse"
		if g.Parser.HasMultipleUserInputs() {
			method += g.NontermID(inp.Nonterm)
		}
		nt := g.Parser.Nonterms[inp.Nonterm]
		if nt.Type != "" && g.Parser.HasInputAssocValues() {
			fmt.Fprintf(&sb, "\tcase %d:\n\t\t_, err = p.%s(&l)\n", idx, method)
		} else {
			fmt.Fprintf(&sb, "\tcase %d:\n\t\terr = p.%s(&l)\n", idx, method)
		}
		idx++
	}
	sb.WriteString("\tdefault:\n\t\treturn \"bad entry\"\n\t}\n\tif err == nil {\n\t\treturn sb.String() + \"|ok\"\n\t}\n\tif se, ok := err.(SyntaxError); ok {\n\t\treturn sb.String() + fmt.Sprintf(\"|err %d %d\", se.Offset, se.Endoffset)\n\t}\n\treturn sb.String() + \"|other \" + err.Error()\n}\n")
	return map[string]string{"verif_export.go": sb.String()}
}

func c02Unit(c c02Case, name string) (batch.Unit, bool) {
	opts := map[string]string{"eventBased": "true", "optimizeTables": fmt.Sprint(c.Opt)}
	if c.Space {
		opts["fixWhitespace"] = "true"
	}
	if c.Min {
		opts["minimizeDFA"] = "true"
	}
	return batch.Unit{Name: name, TM: c.G.render(name, opts, c.Space, "", nil), Adapter: eventAdapter}, true
}

// egSource renders tokens of an egSpec as text (single letters).
func egSource(toks []int, spaces bool, seed int) (string, []int) {
	var sb strings.Builder
	offs := make([]int, 0, len(toks)+1)
	rnd := &lcg{uint64(seed) + 99}
	for _, t := range toks {
		if spaces {
			switch rnd.next(4) {
			case 0:
				sb.WriteByte(' ')
			case 1:
				sb.WriteString("\n  ")
			}
		}
		offs = append(offs, sb.Len())
		sb.WriteByte(byte('a' + t - 1))
	}
	if spaces && rnd.next(2) == 0 {
		sb.WriteString(" \n")
	}
	offs = append(offs, sb.Len())
	return sb.String(), offs
}

func expectedEventString(evs []egEvent, offs []int) string {
	var sb strings.Builder
	for _, e := range evs {
		if e.Lo == e.Hi {
			fmt.Fprintf(&sb, "%s:%d:%d,", e.Type, offs[e.Lo], offs[e.Lo])
		} else {
			fmt.Fprintf(&sb, "%s:%d:%d,", e.Type, offs[e.Lo], offs[e.Hi-1]+1)
		}
	}
	return sb.String()
}

func c02Check(c c02Case, res *batch.Result, run runFunc, r *ev.Recorder) *Failure {
	g := c.G
	nested, emptyOrList := false, false
	for ii, inp := range g.Inputs {
		for s := 0; s < 30; s++ {
			root, toks := g.derive(inp.NT, c.Seed+s*31+ii, 4+s%9)
			if len(toks) > 60 {
				continue
			}
			var evs []egEvent
			g.events(root, &evs)
			src, offs := egSource(toks, c.Space, c.Seed+s)
			want := expectedEventString(evs, offs) + "|ok"
			out, pan, err := run(ii, src, "")
			r.Eval(1)
			where := fmt.Sprintf("input %s, source %q; grammar:\n%s", g.NTs[inp.NT].Name, src, c.G.render("g", nil, c.Space, "", nil))
			if err != nil {
				return failf("generated-parser-hangs-or-dies", "%v on %s", err, where)
			}
			if pan != "" {
				return failf("generated-parser-panics", "panic %s on %s", oneLine(pan, 300), where)
			}
			if !strings.HasSuffix(out, "|ok") {
				return failf("sentence-rejected", "a sentence derived from the grammar is rejected (%s) on %s", out[strings.LastIndex(out, "|")+1:], where)
			}
			if out != want {
				return failf("events-differ", "listener events %q, expected %q (Type:offset:endoffset in report order) on %s", strings.TrimSuffix(out, "|ok"), strings.TrimSuffix(want, "|ok"), where)
			}
			for _, e := range evs {
				if e.Lo == e.Hi {
					emptyOrList = true
				}
			}
			var walk func(n *dNode, top bool)
			walk = func(n *dNode, top bool) {
				if !top && n.alt.Node != "" {
					nested = true
				}
				for _, k := range n.kids {
					if k.sub != nil {
						walk(k.sub, k.part.K == "n")
					}
					if len(k.elems) >= 2 {
						emptyOrList = true
					}
					for _, e := range k.elems {
						walk(e, false)
					}
				}
			}
			walk(root, true)
		}
	}
	if nested {
		r.Class("nested-annotation")
	}
	if nested && emptyOrList {
		js, _ := json.Marshal(c.G)
		r.Nontrivial(string(js) + fmt.Sprint(c.Space, c.Opt))
		if r.WantSample() {
			r.Sample(map[string]any{"grammar": c.G.render("g", nil, c.Space, "", nil), "fixWhitespace+spaces": c.Space})
		}
	} else {
		r.Class("plain-annotations-only")
	}
	return nil
}

func TestC02(t *testing.T) {
	p := &batchProp[c02Case]{
		ID:        "C02",
		Rule:      "event-based grammars in extended notation: 1..4 nonterminals with 1..3 guarded alternatives, parts = terminals, references to later nonterminals, optional parts x?/(..)?, nested choices (..|..), lists x+ x* (.. separator 't')+/* and annotated possibly-empty parts (x? -> N); '-> Node' on nonterminals, alternatives, nested alternatives and list elements (6 node names shared between rules); in a third of the grammars state markers in a third of the alternatives, mostly at the end of the rule; in a third, nonterminals that end a rule get an action-only alternative `| { _ = 0 }` (nullable through a command); with a skipped space token + fixWhitespace or without spaces; optimizeTables on/off; kept when Textmapper compiles them without conflicts. 30 sentences per input are derived from the spec itself (so the derivation is known), rendered to text and parsed by the generated parser; the listener's (type, offset, endoffset) sequence must equal the expected one: sub-rules and list elements report at their reduction, annotations inlined into a rule left to right, inner first, the rule's node last; ranges from the first to the last token, empty parts at the following token. Non-trivial: derivations exercising a nested annotation together with an empty annotated part or a list of >=2 elements; distinct by (grammar, options).",
		Assume:    []string{"with a skipped space token fixWhitespace is enabled (without it the documented ranges include trailing whitespace before the next token)", "the order between annotations of different reductions follows the reduction order (children before parents); see DESIGN.md C02 on 'post-order'"},
		Quick:     192, Thorough: 2400, BatchSize: 96,
		Gen:       c02Gen,
		Unit:      c02Unit,
		Check:     c02Check,
	}
	p.run(t)
}
