package props

import (
	"context"
	"encoding/json"
	"fmt"
	"sort"
	"strings"
	"testing"

	"github.com/inspirer/textmapper/compiler"
	"pgregory.net/rapid"

	"verif/harness/internal/ev"
	"verif/harness/internal/oracle"
)

// C14 — template instantiation preserves meaning. Oracle: an independent interpreter of the
// templated grammar (environment passing: explicit, propagated and default arguments, name-based
// propagation of inline parameters, lookahead flags flowing down the leftmost references)
// instantiates (nonterminal, valuation) pairs from the inputs; the bounded language of every input
// is compared with the one of the plain rules Textmapper produced.

type tParam struct {
	Name    string `json:"name"`
	Global  bool   `json:"global"`
	Default string `json:"default,omitempty"` // "", "true", "false"
	LA      bool   `json:"la,omitempty"`
	Owner   int    `json:"owner,omitempty"` // inline: declaring nonterminal
}

type tArg struct {
	Param int    `json:"param"`          // parameter of the target
	Kind  string `json:"kind"`           // true | false | lit | ref | prop
	Lit   bool   `json:"lit,omitempty"`  // lit: value
	From  int    `json:"from,omitempty"` // ref: parameter of the referencing nonterminal
}

type tPart struct {
	Term int    `json:"term,omitempty"` // >0: terminal
	NT   int    `json:"nt,omitempty"`   // nonterminal index (when Term == 0)
	Args []tArg `json:"args,omitempty"`
	Opt  bool   `json:"opt,omitempty"`
	// Set "any" | "first" | "last": the part is `set(NT<args>)`, `set(first NT<args>)`, ...: one
	// terminal of that set of the instance of NT given by the (literal) arguments and defaults.
	Set string `json:"set,omitempty"`
	// LA 1 | 2: the part is a lookahead predicate `(?= NT<args>)` / `(?= !NT<args>)`: it derives
	// nothing, but the instance of NT it refers to (resolved in the context of the enclosing
	// nonterminal, like any reference) becomes a synthetic input of the compiled grammar.
	LA int `json:"la,omitempty"`
}

type tLit struct {
	Param int    `json:"param"`
	Form  string `json:"form"` // p | not | eq | ne
	Lit   bool   `json:"lit,omitempty"`
}

type tAlt struct {
	Pred  [][]tLit `json:"pred,omitempty"` // disjunction of conjunctions; nil: unconditional
	Parts []tPart  `json:"parts"`
}

type tNT struct {
	Name   string `json:"name"`
	Params []int  `json:"params"` // declared parameters (global references and own inline ones)
	Alts   []tAlt `json:"alts"`
}

type c14Case struct {
	T      int      `json:"t"`
	Params []tParam `json:"params"`
	NTs    []tNT    `json:"nts"`
	Inputs []int    `json:"inputs"`
	NoEoi  []bool   `json:"noeoi,omitempty"` // per input: declared `no-eoi`
}

func c14Gen(t *rapid.T) c14Case {
	c := c14Case{T: rapid.IntRange(3, 5).Draw(t, "T")}
	nGlobal := rapid.IntRange(1, 3).Draw(t, "globals")
	for i := 0; i < nGlobal; i++ {
		c.Params = append(c.Params, tParam{Name: fmt.Sprintf("F%d", i), Global: true, Default: []string{"", "true", "false"}[rapid.IntRange(0, 2).Draw(t, "gdef")]})
	}
	nLA := rapid.IntRange(0, 2).Draw(t, "las")
	if rapid.IntRange(0, 2).Draw(t, "noLA") == 0 {
		nLA = 0
	}
	for i := 0; i < nLA; i++ {
		c.Params = append(c.Params, tParam{Name: fmt.Sprintf("L%d", i), Global: true, LA: true, Default: "false"})
	}
	nNT := rapid.IntRange(2, 5).Draw(t, "nNT")
	for i := 0; i < nNT; i++ {
		nt := tNT{Name: string(rune('A' + i))}
		if i > 0 { // the first nonterminal is the input and cannot be parametrized
			for p := range c.Params {
				if c.Params[p].Global && !c.Params[p].LA && rapid.IntRange(0, 2).Draw(t, "declG") == 0 {
					nt.Params = append(nt.Params, p)
				}
			}
			for k := rapid.IntRange(0, 2).Draw(t, "inline"); k > 0; k-- {
				name := []string{"X", "Y"}[rapid.IntRange(0, 1).Draw(t, "iname")]
				dup := false
				for _, p := range nt.Params {
					dup = dup || c.Params[p].Name == name
				}
				if dup {
					continue
				}
				c.Params = append(c.Params, tParam{Name: name, Owner: i, Default: []string{"", "true", "false"}[rapid.IntRange(0, 2).Draw(t, "idef")]})
				nt.Params = append(nt.Params, len(c.Params)-1)
			}
		}
		c.NTs = append(c.NTs, nt)
	}
	c.Inputs = []int{0}
	if nNT > 2 && len(c.NTs[nNT-1].Params) == 0 && rapid.IntRange(0, 3).Draw(t, "in2") == 0 {
		c.Inputs = append(c.Inputs, nNT-1)
	}
	var las []int
	for p := range c.Params {
		if c.Params[p].LA {
			las = append(las, p)
		}
	}
	visible := func(nt int) []int { // parameters usable in predicates and as value references
		return append(append([]int(nil), c.NTs[nt].Params...), las...)
	}
	genPred := func(nt int) [][]tLit {
		vis := visible(nt)
		if len(vis) == 0 {
			return nil
		}
		var pred [][]tLit
		for i := rapid.IntRange(1, 2).Draw(t, "disj"); i > 0; i-- {
			var conj []tLit
			for j := rapid.IntRange(1, 2).Draw(t, "conj"); j > 0; j-- {
				conj = append(conj, tLit{
					Param: vis[rapid.IntRange(0, len(vis)-1).Draw(t, "pp")],
					Form:  []string{"p", "p", "not", "not", "eq", "ne"}[rapid.IntRange(0, 5).Draw(t, "form")],
					Lit:   rapid.Bool().Draw(t, "plit"),
				})
			}
			pred = append(pred, conj)
		}
		return pred
	}
	for i := range c.NTs {
		nAlts := rapid.IntRange(1, 3).Draw(t, "nalts")
		for a := 0; a < nAlts; a++ {
			alt := tAlt{}
			if a > 0 && rapid.IntRange(0, 2).Draw(t, "cond") > 0 {
				alt.Pred = genPred(i)
			}
			nParts := rapid.IntRange(1, 3).Draw(t, "nparts")
			for k := 0; k < nParts; k++ {
				if rapid.IntRange(0, 2).Draw(t, "isTerm") == 0 || nNT == 1 {
					alt.Parts = append(alt.Parts, tPart{Term: rapid.IntRange(1, c.T-1).Draw(t, "term")})
					continue
				}
				// reference: later nonterminals anywhere, any nonterminal (recursion) behind a terminal
				target := rapid.IntRange(1, nNT-1).Draw(t, "target")
				if k == 0 && target <= i {
					alt.Parts = append(alt.Parts, tPart{Term: rapid.IntRange(1, c.T-1).Draw(t, "guard")})
				}
				part := tPart{NT: target, Opt: k > 0 && rapid.IntRange(0, 5).Draw(t, "opt") == 0}
				vis := visible(i)
				tparams := append(append([]int(nil), c.NTs[target].Params...), las...)
				for _, p := range tparams {
					isLA := c.Params[p].LA
					roll := rapid.IntRange(0, 9).Draw(t, "argKind")
					if isLA && roll < 6 {
						continue // lookahead flags are mostly left to propagation
					}
					switch {
					case roll < 3:
						continue // unspecified: propagation by name, default or an error
					case roll < 5:
						part.Args = append(part.Args, tArg{Param: p, Kind: "true"})
					case roll < 7:
						part.Args = append(part.Args, tArg{Param: p, Kind: "false"})
					case roll < 8:
						part.Args = append(part.Args, tArg{Param: p, Kind: "lit", Lit: rapid.Bool().Draw(t, "alit")})
					case roll < 9 && len(vis) > 0:
						part.Args = append(part.Args, tArg{Param: p, Kind: "ref", From: vis[rapid.IntRange(0, len(vis)-1).Draw(t, "from")]})
					default:
						part.Args = append(part.Args, tArg{Param: p, Kind: "prop"})
					}
				}
				alt.Parts = append(alt.Parts, part)
			}
			c.NTs[i].Alts = append(c.NTs[i].Alts, alt)
		}
	}
	return c
}

func (c *c14Case) term(t int) string { return "'" + string(rune('a'+t-1)) + "'" }

func (c *c14Case) render() string {
	var sb strings.Builder
	sb.WriteString("language g(go);\n\n:: lexer\n\n")
	for t := 1; t < c.T; t++ {
		fmt.Fprintf(&sb, "%s: /%c/\n", c.term(t), 'a'+t-1)
	}
	sb.WriteString("\n:: parser\n\n")
	for _, p := range c.Params {
		if !p.Global {
			continue
		}
		la := ""
		if p.LA {
			la = "lookahead "
		}
		def := ""
		if p.Default != "" {
			def = " = " + p.Default
		}
		fmt.Fprintf(&sb, "%%%sflag %s%s;\n", la, p.Name, def)
	}
	sb.WriteString("\n%input ")
	for i, in := range c.Inputs {
		if i > 0 {
			sb.WriteString(", ")
		}
		sb.WriteString(c.NTs[in].Name)
		if i < len(c.NoEoi) && c.NoEoi[i] {
			sb.WriteString(" no-eoi")
		}
	}
	sb.WriteString(";\n\n")
	for i, nt := range c.NTs {
		sb.WriteString(nt.Name)
		if len(nt.Params) > 0 {
			var ps []string
			for _, p := range nt.Params {
				pp := c.Params[p]
				switch {
				case pp.Global:
					ps = append(ps, pp.Name)
				case pp.Default != "":
					ps = append(ps, "flag "+pp.Name+" = "+pp.Default)
				default:
					ps = append(ps, "flag "+pp.Name)
				}
			}
			sb.WriteString("<" + strings.Join(ps, ", ") + ">")
		}
		sb.WriteString(":\n")
		_ = i
		for k, a := range nt.Alts {
			if k == 0 {
				sb.WriteString("    ")
			} else {
				sb.WriteString("  | ")
			}
			if a.Pred != nil {
				var ds []string
				for _, conj := range a.Pred {
					var ls []string
					for _, l := range conj {
						n := c.Params[l.Param].Name
						switch l.Form {
						case "p":
							ls = append(ls, n)
						case "not":
							ls = append(ls, "!"+n)
						case "eq":
							ls = append(ls, fmt.Sprintf("%s == \"%v\"", n, l.Lit))
						default:
							ls = append(ls, fmt.Sprintf("%s != \"%v\"", n, l.Lit))
						}
					}
					ds = append(ds, strings.Join(ls, " && "))
				}
				sb.WriteString("[" + strings.Join(ds, " || ") + "] ")
			}
			var parts []string
			for _, p := range a.Parts {
				if p.Term > 0 {
					parts = append(parts, c.term(p.Term))
					continue
				}
				s := c.NTs[p.NT].Name
				if len(p.Args) > 0 {
					var as []string
					for _, arg := range p.Args {
						n := c.Params[arg.Param].Name
						switch arg.Kind {
						case "true":
							as = append(as, "+"+n)
						case "false":
							as = append(as, "~"+n)
						case "lit":
							as = append(as, fmt.Sprintf("%s: %v", n, arg.Lit))
						case "ref":
							as = append(as, fmt.Sprintf("%s: %s", n, c.Params[arg.From].Name))
						default:
							as = append(as, n)
						}
					}
					s += "<" + strings.Join(as, ", ") + ">"
				}
				switch p.LA {
				case 1:
					s = "(?= " + s + ")"
				case 2:
					s = "(?= !" + s + ")"
				}
				switch p.Set {
				case "any":
					s = "set(" + s + ")"
				case "first", "last":
					s = "set(" + p.Set + " " + s + ")"
				}
				if p.Opt {
					s += "?"
				}
				parts = append(parts, s)
			}
			if len(parts) == 0 {
				parts = []string{"%empty"}
			}
			sb.WriteString(strings.Join(parts, " ") + "\n")
		}
		sb.WriteString(";\n\n")
	}
	return sb.String()
}

// ---------- the interpreter

type tEnv map[int]bool // parameter -> value (declared parameters of the nonterminal and all LA flags)

type c14Inst struct {
	c     *c14Case
	keys  map[string]int // instance key -> nonterminal number in the plain grammar
	rules []oracle.CFGRule
	terms int
	term  func(t int) int
	bad   string // reason why the grammar is outside the interpreter's domain
	queue []func()
	sets  []c14Set // set nonterminals, resolved once all instances exist
	// laTargets: canonical names (instanceName) of the instances used in lookahead predicates
	laTargets map[string]bool
}

// instanceName is "<nonterminal>|<names of its declared parameters that are true, sorted>".
func (in *c14Inst) instanceName(nt int, env tEnv) string {
	var on []string
	for _, p := range in.c.NTs[nt].Params {
		if env[p] {
			on = append(on, in.c.Params[p].Name)
		}
	}
	sort.Strings(on)
	return in.c.NTs[nt].Name + "|" + strings.Join(on, ",")
}

func (in *c14Inst) key(nt int, env tEnv) string {
	var ps []int
	for p := range env {
		ps = append(ps, p)
	}
	sort.Ints(ps)
	var sb strings.Builder
	fmt.Fprintf(&sb, "%d", nt)
	for _, p := range ps {
		fmt.Fprintf(&sb, ",%d=%v", p, env[p])
	}
	return sb.String()
}

func (in *c14Inst) eval(pred [][]tLit, env tEnv) bool {
	if pred == nil {
		return true
	}
	for _, conj := range pred {
		ok := true
		for _, l := range conj {
			v := env[l.Param]
			switch l.Form {
			case "p":
				ok = ok && v
			case "not":
				ok = ok && !v
			case "eq":
				ok = ok && v == l.Lit
			default:
				ok = ok && v != l.Lit
			}
		}
		if ok {
			return true
		}
	}
	return false
}

// instance returns the plain nonterminal of (nt, env), creating its rules on first use.
func (in *c14Inst) instance(nt int, env tEnv) int {
	k := in.key(nt, env)
	if id, ok := in.keys[k]; ok {
		return id
	}
	id := in.terms + len(in.keys)
	in.keys[k] = id
	c := in.c
	in.queue = append(in.queue, func() {
		any := false
		for _, a := range c.NTs[nt].Alts {
			if !in.eval(a.Pred, env) {
				continue
			}
			any = true
			// an optional part doubles the rule
			variants := [][]int{{}}
			for pi, p := range a.Parts {
				var sym int
				if p.LA != 0 {
					// a predicate: nothing on the right-hand side, its target instance is recorded
					tenv := in.targetEnv(nt, env, p, false)
					in.instance(p.NT, tenv)
					if in.laTargets == nil {
						in.laTargets = map[string]bool{}
					}
					in.laTargets[in.instanceName(p.NT, tenv)] = true
					continue
				}
				if p.Term > 0 {
					sym = in.term(p.Term)
				} else if p.Set != "" {
					sym = in.setNT(p)
				} else {
					sym = in.instance(p.NT, in.targetEnv(nt, env, p, pi == 0))
				}
				var next [][]int
				for _, v := range variants {
					next = append(next, append(append([]int(nil), v...), sym))
					if p.Opt {
						next = append(next, v)
					}
				}
				variants = next
			}
			for _, v := range variants {
				in.rules = append(in.rules, oracle.CFGRule{LHS: id, RHS: v})
			}
		}
		if !any {
			in.bad = "instance-without-enabled-alternative"
		}
	})
	return id
}

// targetEnv computes the valuation of the referenced nonterminal.
func (in *c14Inst) targetEnv(caller int, env tEnv, p tPart, leftmost bool) tEnv {
	c := in.c
	out := tEnv{}
	explicit := map[int]tArg{}
	for _, a := range p.Args {
		explicit[a.Param] = a
	}
	value := func(a tArg, param int) (bool, bool) {
		switch a.Kind {
		case "true":
			return true, true
		case "false":
			return false, true
		case "lit":
			return a.Lit, true
		case "ref":
			v, ok := env[a.From]
			return v, ok
		}
		// prop: the caller's parameter with the same name
		for q, v := range env {
			if c.Params[q].Name == c.Params[param].Name {
				return v, true
			}
		}
		return false, false
	}
	for _, param := range c.NTs[p.NT].Params {
		if a, ok := explicit[param]; ok {
			v, ok := value(a, param)
			if !ok {
				in.bad = "argument-refers-to-unknown-parameter"
			}
			out[param] = v
			continue
		}
		found := false
		for _, q := range c.NTs[caller].Params {
			if c.Params[q].Name == c.Params[param].Name {
				out[param] = env[q]
				found = true
				break
			}
		}
		if found {
			continue
		}
		switch c.Params[param].Default {
		case "true":
			out[param] = true
		case "false":
			out[param] = false
		default:
			in.bad = "uninitialized-parameter"
		}
	}
	for q := range c.Params {
		if !c.Params[q].LA {
			continue
		}
		if a, ok := explicit[q]; ok {
			v, _ := value(a, q)
			out[q] = v
		} else if leftmost {
			out[q] = env[q]
		} else {
			out[q] = false
		}
	}
	return out
}

func c14Check(c c14Case, r *ev.Recorder) *Failure {
	if len(c.NTs) == 0 || c.T < 2 {
		return nil
	}
	src := c.render()
	out, err := compiler.Compile(context.Background(), "g.tm", src, compiler.Params{})
	r.Eval(1)
	errText := ""
	if err != nil {
		errText = err.Error()
	}
	onlyConflicts := true
	for _, line := range strings.Split(errText, "\n") {
		if strings.TrimSpace(line) != "" && !strings.Contains(line, "conflict") && !strings.Contains(line, ": input:") && !strings.HasPrefix(line, " ") && !strings.HasPrefix(line, "\t") {
			onlyConflicts = false
		}
	}
	if out == nil || out.Parser == nil || len(out.Parser.Rules) == 0 || !onlyConflicts {
		msg := errText
		if i := strings.Index(msg, ": "); i > 0 {
			msg = msg[i+2:]
		}
		r.Excluded("rejected:" + firstWords(c17Num.ReplaceAllString(msg, "N"), 3))
		return nil
	}
	termOf := map[string]int{}
	for i := 0; i < out.NumTokens; i++ {
		termOf[out.Syms[i].Name] = i
	}
	in := &c14Inst{c: &c, keys: map[string]int{}, terms: out.NumTokens, term: func(t int) int { return termOf[c.term(t)] }}
	base := tEnv{}
	for q := range c.Params {
		if c.Params[q].LA {
			base[q] = false
		}
	}
	var roots []int
	for _, inp := range c.Inputs {
		roots = append(roots, in.instance(inp, base))
	}
	for len(in.queue) > 0 {
		f := in.queue[0]
		in.queue = in.queue[1:]
		f()
		if len(in.keys) > 400 {
			r.Excluded("too-many-instances")
			return nil
		}
	}
	if in.bad != "" {
		// The compiler accepted a grammar the interpreter considers ill-formed: outside the domain
		// the statement talks about (no defined meaning to compare with).
		r.Excluded("interpreter:" + in.bad)
		return nil
	}
	in.resolveSets()
	L := 5
	want := oracle.PlainLang(out.NumTokens, len(in.keys), in.rules, L)
	nts := len(out.Syms) - out.NumTokens
	var rules []oracle.CFGRule
	for _, rl := range out.Parser.Rules {
		cr := oracle.CFGRule{LHS: int(rl.LHS)}
		for _, s := range rl.RHS {
			if !s.IsStateMarker() {
				cr.RHS = append(cr.RHS, int(s))
			}
		}
		rules = append(rules, cr)
	}
	got := oracle.PlainLang(out.NumTokens, nts, rules, L)
	ntIndex := map[string]int{}
	for i := out.NumTokens; i < len(out.Syms); i++ {
		ntIndex[out.Syms[i].Name] = i - out.NumTokens
	}
	// the declared inputs survive instantiation with their end-of-input mode
	var userInputs []int
	for i, inp := range out.Parser.Inputs {
		if !inp.Synthetic {
			userInputs = append(userInputs, i)
		}
	}
	if len(userInputs) != len(c.Inputs) {
		return failf("inputs-differ", "%d inputs declared, the compiled grammar has %d user inputs; grammar:\n%s", len(c.Inputs), len(userInputs), src)
	}
	for k, i := range userInputs {
		inp := out.Parser.Inputs[i]
		if name := out.Parser.Nonterms[inp.Nonterm].Name; name != c.NTs[c.Inputs[k]].Name {
			return failf("inputs-differ", "input %d is %s, declared %s; grammar:\n%s", k, name, c.NTs[c.Inputs[k]].Name, src)
		}
		if want := k < len(c.NoEoi) && c.NoEoi[k]; inp.NoEoi != want {
			return failf("input-eoi-mode", "input %s: declared no-eoi=%v, after instantiation no-eoi=%v; grammar:\n%s", c.NTs[c.Inputs[k]].Name, want, inp.NoEoi, src)
		}
	}
	// lookahead predicates refer to the instances the enclosing valuation selects: they are the
	// synthetic inputs of the compiled grammar
	gotLA := map[string]bool{}
	for _, inp := range out.Parser.Inputs {
		if inp.Synthetic {
			f := strings.Split(out.Parser.Nonterms[inp.Nonterm].Name, "_")
			sort.Strings(f[1:])
			gotLA[f[0]+"|"+strings.Join(f[1:], ",")] = true
		}
	}
	for want := range in.laTargets {
		if !gotLA[want] {
			return failf("lookahead-target-instance", "a lookahead predicate must refer to instance %s (nonterminal|true parameters); the compiled grammar has the lookahead inputs %v; grammar:\n%s", want, sortedKeys(gotLA), src)
		}
	}
	// (the converse is not asserted: set expressions of unreachable nonterminals are instantiated
	// too and may bring predicates of their own)
	big := false
	for k, inp := range c.Inputs {
		name := c.NTs[inp].Name
		gi, ok := ntIndex[name]
		if !ok {
			return failf("input-nonterminal-missing", "nonterminal %s is missing from the compiled grammar:\n%s", name, src)
		}
		w, gt := want[roots[k]-out.NumTokens], got[gi]
		if d := oracle.Diff(w, gt, 3); len(d) > 0 {
			return failf("language-lost", "input %s: the templates derive [%s] (length <= %d) but the instantiated rules do not; grammar:\n%s", name, symString(out, d[0]), L, src)
		}
		if d := oracle.Diff(gt, w, 3); len(d) > 0 {
			return failf("language-added", "input %s: the instantiated rules derive [%s] (length <= %d) which the templates do not; grammar:\n%s", name, symString(out, d[0]), L, src)
		}
		if len(w) >= 2 {
			big = true
		}
	}
	multi := map[int]int{}
	for k := range in.keys {
		var nt int
		fmt.Sscanf(k, "%d", &nt)
		if nt >= 0 { // set nonterminals have keys starting with -1
			multi[nt]++
		}
	}
	several := false
	for _, n := range multi {
		several = several || n >= 2
	}
	hasLA := false
	for _, p := range c.Params {
		hasLA = hasLA || p.LA
	}
	if several && big {
		js, _ := json.Marshal(c)
		r.Nontrivial(string(js))
		r.Class("nonterminal-instantiated-with-2+-valuations")
		if hasLA {
			r.Class("with-lookahead-flags")
		}
		if len(in.sets) > 0 {
			r.Class("with-sets-over-template-instances")
		}
		if r.WantSample() && len(src) < 1200 {
			r.Sample(map[string]any{"grammar": src, "instances": len(in.keys), "strings_in_first_input": len(want[roots[0]-out.NumTokens])})
		}
	}
	return nil
}

func TestC14(t *testing.T) {
	p := &prop[c14Case]{
		ID:   "C14",
		Rule: "templated grammars: 1..3 global %flag parameters (default true/false/none), 0..2 %lookahead flags, 2..5 nonterminals declaring subsets of the globals and inline `flag X [= default]` parameters (names X/Y reused across nonterminals so that name-based propagation happens), alternatives with predicates in disjunctive form over p, !p, p == lit, p != lit (&& binds tighter than ||), references with any mix of +P, ~P, P: true/false, P: Q, bare P (propagate) and omitted arguments, optional references, recursion, explicit `%empty` alternatives (in grammars without lookahead flags); in a third of the cases 1..4 parts `set(X<args>)`, `set(first X<args>)`, `set(last X<args>)` with literal arguments (often two of them over the same nonterminal with different arguments), evaluated by the interpreter as least fixpoints over the instantiated rules; one unparametrized input, declared no-eoi in two ninths of the cases (the compiled grammar must list the declared inputs with their end-of-input mode). Compiled with compiler.Compile (kept when accepted or only LALR conflicts are reported). An independent interpreter instantiates (nonterminal, valuation) pairs from the inputs — omitted argument: same-named parameter of the caller, else the default; lookahead flags: explicit value, else inherited by the leftmost reference of an alternative, else false — and the set of terminal strings of length <= 5 of every input must equal the one of grammar.Parser.Rules. Non-trivial: some nonterminal instantiated with >= 2 valuations and >= 2 strings in an input; distinct by case JSON.",
		Assume: []string{"an instance whose alternatives are all disabled has no agreed meaning (Textmapper makes it derive the empty string); such grammars are counted and skipped", "only whole-input languages are compared, not the individual instantiated nonterminals"},
		Quick:  24000, Thorough: 1200000,
		Gen:   c14Gen2,
		Check: c14Check,
	}
	p.run(t)
}
