package props

import (
	"encoding/json"
	"fmt"
	"testing"

	"github.com/inspirer/textmapper/lalr"
	"pgregory.net/rapid"

	"verif/harness/internal/ev"
	"verif/harness/internal/oracle"
	"verif/harness/internal/tabint"
)

// C04 — precedence and associativity resolve conflicts as documented.
// Oracle: reference LALR(1) automaton (internal/oracle/lr.go) + the documented resolution rule.

type c04Case struct {
	G       gSpec `json:"g"`
	ExpMode int   `json:"exp_mode"`
}

func c04Gen(t *rapid.T) c04Case {
	return c04Case{G: genPrecGSpec(t, 100), ExpMode: rapid.IntRange(0, 3).Draw(t, "expmode")}
}

// refResolve implements the documented rule. Result: 's' shift, 'r' reduce, 'e' error, 'c' conflict.
func refResolve(g *gSpec, rule, term int) byte {
	group := map[int]int{}
	for gi, p := range g.Prec {
		for _, t := range p.Terms {
			group[t] = gi // later declarations win if a terminal is listed twice
		}
	}
	rp := g.Rules[rule].Prec
	if rp == 0 {
		rhs := g.Rules[rule].R
		for i := len(rhs) - 1; i >= 0; i-- {
			if rhs[i] > 0 && rhs[i] < g.T {
				rp = rhs[i]
				break
			}
		}
	}
	if rp == 0 || term == 0 {
		return 'c'
	}
	rg, ok1 := group[rp]
	tg, ok2 := group[term]
	switch {
	case !ok1 || !ok2:
		return 'c'
	case rg > tg:
		return 'r'
	case rg < tg:
		return 's'
	}
	switch g.Prec[tg].Assoc {
	case 0:
		return 'r'
	case 1:
		return 's'
	default:
		return 'e'
	}
}

func c04Check(c c04Case, r *ev.Recorder) *Failure {
	g := c.G
	if !g.valid() {
		return nil
	}
	// a terminal listed in two groups has no documented meaning: outside the domain
	seenT := map[int]bool{}
	for _, p := range g.Prec {
		for _, t := range p.Terms {
			if seenT[t] {
				r.Excluded("terminal-in-two-precedence-groups")
				return nil
			}
			seenT[t] = true
		}
	}
	cfg := g.toCFG()
	l, err := oracle.BuildLALR(cfg, 3000)
	if err != nil {
		r.Excluded("lr1-collection-too-large")
		return nil
	}
	type want struct {
		exact   bool
		action  int   // when exact
		allowed []int // when !exact
	}
	wantSR, wantRR := 0, 0
	mixed, decided, nonassocErr, conflicts := 0, 0, 0, 0
	wants := make([][]want, len(l.States))
	for si := range l.States {
		cells, reduces := l.Cells(si)
		if len(reduces) == 0 || (len(reduces) == 1 && !l.HasTerminalShift(si)) {
			continue
		}
		ws := make([]want, g.T)
		for term, cell := range cells {
			w := want{exact: true, action: -2}
			switch {
			case cell.Shift && len(cell.Reduces) == 1:
				switch refResolve(&g, cell.Reduces[0], term) {
				case 's':
					w.action = -1
					decided++
				case 'r':
					w.action = cell.Reduces[0]
					decided++
				case 'e':
					w.action = -2
					decided++
					nonassocErr++
				default:
					w.action = -1
					wantSR++
					conflicts++
				}
			case cell.Shift && len(cell.Reduces) > 1:
				mixed++
				w.exact = false
				// a reduction may win against the shift only where precedence decides so; a choice
				// precedence cannot decide defaults to shift (or stays the %nonassoc error)
				w.allowed = []int{-1}
				sawErr := false
				for _, rl := range cell.Reduces {
					switch refResolve(&g, rl, term) {
					case 'r':
						w.allowed = append(w.allowed, rl)
					case 'e':
						if !sawErr {
							sawErr = true
							w.allowed = append(w.allowed, -2)
						}
					}
				}
			case cell.Shift:
				w.action = -1
			case len(cell.Reduces) > 1:
				w.action = cell.Reduces[0]
				wantRR++
				conflicts++
			case len(cell.Reduces) == 1:
				w.action = cell.Reduces[0]
			}
			ws[term] = w
		}
		wants[si] = ws
	}

	lg := g.toLalr()
	switch c.ExpMode {
	case 0:
		lg.ExpectSR, lg.ExpectRR = wantSR, wantRR
	case 1:
		lg.ExpectSR, lg.ExpectRR = wantSR+1, wantRR
	case 2:
		lg.ExpectSR, lg.ExpectRR = 0, 0
	case 3:
		lg.ExpectSR, lg.ExpectRR = wantSR, wantRR+1
	}
	t, cerr := lalr.Compile(lg, lalr.Options{})
	r.Eval(1)
	o2t, f := pairStates(l, t, g.T+g.N)
	if f != nil {
		f.Msg += "; grammar: " + g.String()
		return f
	}
	for si := range l.States {
		ts := o2t[si]
		_, reduces := l.Cells(si)
		a := t.Action[ts]
		where := fmt.Sprintf("state %d (core %v%s)", ts, l.States[si].Core, l.States[si].Tag)
		if wants[si] == nil {
			// no-lookahead state: same rules as C03
			switch {
			case len(reduces) == 0:
				if a != -1 && a != -2 {
					return failf("action-no-reduce-state", "%s has no reducible rule but Action=%d; grammar: %s", where, a, g.String())
				}
			case a >= -2 && a != reduces[0]:
				return failf("action-lr0-reduce", "%s has the single reduction %d but Action=%d; grammar: %s", where, reduces[0], a, g.String())
			}
			if a >= -2 {
				continue
			}
			// consults lookahead although it need not: cells must still be LALR(1)
			cells, _ := l.Cells(si)
			for term, cell := range cells {
				w := -2
				if len(cell.Reduces) > 0 {
					w = cell.Reduces[0]
				}
				if got := tmCellAction(t, ts, term); got != w {
					return failf("action-cell", "%s lookahead %s: want %d, Textmapper has %d; grammar: %s", where, g.symName(term), w, got, g.String())
				}
			}
			continue
		}
		if a >= -2 {
			return failf("action-needs-lookahead", "%s has reductions %v and needs lookahead, but Action=%d; grammar: %s", where, reduces, a, g.String())
		}
		for term, w := range wants[si] {
			got := tmCellAction(t, ts, term)
			if w.exact {
				if got != w.action {
					return failf("prec-cell", "%s, lookahead %s: the documented precedence rule gives action %d (-1 shift, -2 error, n reduce rule n), Textmapper has %d; grammar: %s", where, g.symName(term), w.action, got, g.String())
				}
				continue
			}
			ok := false
			for _, al := range w.allowed {
				if al == got {
					ok = true
				}
			}
			if !ok {
				return failf("prec-mixed-cell", "%s, lookahead %s (shift + several reductions): action %d is not among the candidates %v; grammar: %s", where, g.symName(term), got, w.allowed, g.String())
			}
		}
	}
	// The same decisions must be visible through the compressed tables the generated parser
	// reads (optimizeTables, with and without defaultReduce): a shift stays a shift, a reduction
	// the same reduction, and an error forced by %nonassoc stays an error (defaultReduce may only
	// replace errors that come from absent cells).
	for _, dr := range []bool{false, true} {
		t2, _ := lalr.Compile(lg, lalr.Options{Optimize: true, DefaultReduce: dr})
		if t2 == nil || t2.Optimized == nil {
			continue
		}
		for si := range l.States {
			ts := o2t[si]
			for term, w := range wants[si] {
				if !w.exact {
					continue
				}
				got := tabint.ActionOptimized(t2.Optimized, ts, term)
				var ok bool
				switch {
				case w.action == -1:
					ok = got <= -2 // a shift (target state checked by C05)
				case w.action >= 0:
					ok = got == w.action
				default: // error: only cells made errors by %nonassoc are pinned under defaultReduce
					cells, _ := l.Cells(si)
					forced := cells[term].Shift || len(cells[term].Reduces) > 0
					ok = got == -1 || (dr && !forced && got >= 0)
				}
				if !ok {
					return failf("prec-cell-compressed", "state %d, lookahead %s: the documented precedence rule gives action %d (-1 shift, -2 error, n reduce rule n) but the optimized tables (defaultReduce=%v) decode to %d (-1 error, <=-2 shift); grammar: %s", ts, g.symName(term), w.action, dr, got, g.String())
				}
			}
		}
	}
	if mixed == 0 {
		if t.SR != wantSR || t.RR != wantRR {
			return failf("conflict-counts", "Textmapper counts %d shift/reduce and %d reduce/reduce unresolved conflicts, the documented rule leaves %d and %d; grammar: %s", t.SR, t.RR, wantSR, wantRR, g.String())
		}
		wantErr := wantSR != lg.ExpectSR || wantRR != lg.ExpectRR
		if wantErr != (cerr != nil) {
			return failf("conflict-error-iff-expect-mismatch", "unresolved sr=%d rr=%d, %%expect %d/%d: error expected=%v, got %v; grammar: %s", wantSR, wantRR, lg.ExpectSR, lg.ExpectRR, wantErr, cerr, g.String())
		}
	} else {
		r.Class("has-mixed-cells(counts not compared)")
	}
	switch {
	case nonassocErr > 0:
		r.Class("nonassoc-error-cell")
	case decided > 0:
		r.Class("decided-by-precedence")
	case conflicts > 0:
		r.Class("unresolved-only")
	default:
		r.Class("no-conflict-cells")
	}
	if decided > 0 {
		js, _ := json.Marshal(g)
		r.Nontrivial(string(js))
		if r.WantSample() {
			r.Sample(map[string]any{"grammar": g.String(), "decided_cells": decided, "nonassoc_error_cells": nonassocErr, "unresolved": conflicts, "mixed": mixed})
		}
	}
	return nil
}

func TestC04(t *testing.T) {
	p := &prop[c04Case]{
		ID:   "C04",
		Rule: "grammars: 50% mutated ambiguous expression seeds (binary/unary/ternary/postfix operators, dangling else, juxtaposition), 50% C01 generator; 1..4 %left/%right/%nonassoc groups over distinct terminals (some operators left undeclared), %prec on 25% of the rules; built as lalr.Grammar. Reference: LALR(1) automaton by canonical LR(1)+merge, each shift/reduce cell decided by the documented rule (rule precedence = %prec terminal else last terminal; higher group wins; equal: left reduce, right shift, nonassoc error; undeclared side or eoi lookahead => conflict, default shift; reduce/reduce => conflict, earlier rule). Cells with one shift and one reduction and reduction-only cells are compared exactly, cells with a shift and several reductions by a validity predicate (shift; the %nonassoc error if some rule ties with a nonassoc lookahead; a reduction only if precedence makes that rule win against the shift); SR/RR and the %expect error are compared when no such mixed cell exists. Non-trivial: at least one cell decided by precedence; distinct by grammar JSON.",
		Assume: []string{"a terminal listed in two precedence groups is outside the domain (excluded, counted)", "the order in which several reductions are compared with a shift is not fixed by the statement: validity predicate only"},
		Quick: 40000, Thorough: 2400000,
		Gen:   c04Gen,
		Check: c04Check,
	}
	p.run(t)
}
