package props

import (
	"context"
	"fmt"
	"go/ast"
	"go/parser"
	"go/token"
	"os"
	"path/filepath"
	"sort"
	"strconv"
	"strings"
	"sync"

	"pgregory.net/rapid"

	"github.com/inspirer/textmapper/parsers/js"
	jsast "github.com/inspirer/textmapper/parsers/js/ast"
	jssel "github.com/inspirer/textmapper/parsers/js/selector"
	"github.com/inspirer/textmapper/parsers/json"
	ptest "github.com/inspirer/textmapper/parsers/test"
	"github.com/inspirer/textmapper/parsers/tm"
	tmast "github.com/inspirer/textmapper/parsers/tm/ast"
	tmsel "github.com/inspirer/textmapper/parsers/tm/selector"
)

// Shared driver for the shipped event-based parsers (tm, js, json, test): C19 (recovery),
// C20 (event nesting / tree builder) and C29 (cancellation) use it.

type spEvent struct {
	Type     string
	Off, End int
}

type spError struct{ Off, End int }

type spOutcome struct {
	Events []spEvent
	Errors []spError // handler calls, in order
	Err    error     // Parse return value
}

// spTreeNode is one node of a built tree in pre-order.
type spTreeNode struct {
	Type     string
	Off, End int
	Depth    int
}

type shippedParser struct {
	name       string
	entries    []string
	recovering bool
	// parse runs entry on src; stopAfter>0 makes the error handler return false at that call.
	// onEvent (optional) is called after every listener event (used by C29 to cancel).
	parse func(ctx context.Context, entry int, src string, stopAfter int, onEvent func(n int)) spOutcome
	// tree builds the AST with the shipped ast.Parse (nil when the parser ships no tree).
	tree  func(ctx context.Context, src string) ([]spTreeNode, error)
	dict  []string
	files []string // glob patterns of whole-file corpus entries
	tests string   // Go test file whose string constants are corpus entries
}

var shippedParsers = []*shippedParser{
	{
		name: "tm", entries: []string{"File", "Nonterm"}, recovering: true,
		parse: func(ctx context.Context, entry int, src string, stopAfter int, onEvent func(int)) (o spOutcome) {
			l := func(t tm.NodeType, off, end int) {
				o.Events = append(o.Events, spEvent{t.String(), off, end})
				if onEvent != nil {
					onEvent(len(o.Events))
				}
			}
			var s tm.TokenStream
			s.Init(src, l)
			p := &spReused.tm // parser objects are reused: Init has to bring them back to a clean state
			p.Init(func(se tm.SyntaxError) bool {
				o.Errors = append(o.Errors, spError{se.Offset, se.Endoffset})
				return len(o.Errors) != stopAfter && len(o.Errors) < 200
			}, l)
			if entry == 0 {
				o.Err = p.ParseFile(ctx, &s)
			} else {
				o.Err = p.ParseNonterm(ctx, &s)
			}
			return o
		},
		tree: func(ctx context.Context, src string) ([]spTreeNode, error) {
			tree, err := tmast.Parse(ctx, "x.tm", src, func(tm.SyntaxError) bool { return true })
			if err != nil {
				return nil, err
			}
			var out []spTreeNode
			var walk func(n *tmast.Node, d int)
			walk = func(n *tmast.Node, d int) {
				out = append(out, spTreeNode{n.Type().String(), n.Offset(), n.Endoffset(), d})
				for c := n.Child(tmsel.Any); c.IsValid(); c = c.Next(tmsel.Any) {
					walk(c, d+1)
				}
			}
			walk(tree.Root(), 0)
			return out, nil
		},
		dict:  append(append([]string(nil), c12Lexers[0].dict...), " /* c */ ", " # c\n", "/**/", " /* a\nb */ ", " ; ", " | ", " -> N ", " ? "),
		files: []string{"/repo/parsers/*/*.tm", "/repo/compiler/testdata/*.tm", "/repo/compiler/testdata/*.tmerr", "/repo/testing/*/*/*.tm"},
		tests: "/repo/parsers/tm/parser_test.go",
	},
	{
		name: "js", entries: []string{"Module", "TypeSnippet", "ExpressionSnippet", "NamespaceNameSnippet"}, recovering: true,
		parse: func(ctx context.Context, entry int, src string, stopAfter int, onEvent func(int)) (o spOutcome) {
			l := func(t js.NodeType, off, end int) {
				o.Events = append(o.Events, spEvent{t.String(), off, end})
				if onEvent != nil {
					onEvent(len(o.Events))
				}
			}
			var s js.TokenStream
			s.Init(src, l)
			p := &spReused.js
			p.Init(func(se js.SyntaxError) bool {
				o.Errors = append(o.Errors, spError{se.Offset, se.Endoffset})
				return len(o.Errors) != stopAfter && len(o.Errors) < 200
			}, l)
			switch entry {
			case 0:
				o.Err = p.ParseModule(ctx, &s)
			case 1:
				o.Err = p.ParseTypeSnippet(ctx, &s)
			case 2:
				o.Err = p.ParseExpressionSnippet(ctx, &s)
			default:
				o.Err = p.ParseNamespaceNameSnippet(ctx, &s)
			}
			return o
		},
		tree: func(ctx context.Context, src string) ([]spTreeNode, error) {
			tree, err := jsast.Parse(ctx, "x.js", src, func(js.SyntaxError) bool { return true })
			if err != nil {
				return nil, err
			}
			var out []spTreeNode
			var walk func(n *jsast.Node, d int)
			walk = func(n *jsast.Node, d int) {
				out = append(out, spTreeNode{n.Type().String(), n.Offset(), n.Endoffset(), d})
				for c := n.Child(jssel.Any); c.IsValid(); c = c.Next(jssel.Any) {
					walk(c, d+1)
				}
			}
			walk(tree.Root(), 0)
			return out, nil
		},
		dict:  append(append([]string(nil), c12Lexers[1].dict...), " /* c */ ", " // c\n", "/**/", " /* a\nb */ ", " ; ", " , ", " = 1 ", " : T ", "?", " as T "),
		tests: "/repo/parsers/js/parser_test.go",
	},
	{
		name: "json", entries: []string{"JSONText"},
		parse: func(ctx context.Context, entry int, src string, stopAfter int, onEvent func(int)) (o spOutcome) {
			var l json.Lexer
			l.Init(src)
			p := &spReused.json
			p.Init(func(t json.NodeType, off, end int) {
				o.Events = append(o.Events, spEvent{t.String(), off, end})
				if onEvent != nil {
					onEvent(len(o.Events))
				}
			})
			o.Err = p.Parse(&l)
			return o
		},
		dict:  c12Lexers[2].dict,
		files: []string{"/repo/testing/*/*/*.json"},
		tests: "/repo/parsers/json/parser_test.go",
	},
	{
		name: "test", entries: []string{"Test", "Decl1"},
		parse: func(ctx context.Context, entry int, src string, stopAfter int, onEvent func(int)) (o spOutcome) {
			var l ptest.Lexer
			l.Init(src)
			p := &spReused.test
			p.Init(func(t ptest.NodeType, flags ptest.NodeFlags, off, end int) {
				o.Events = append(o.Events, spEvent{t.String(), off, end})
				if onEvent != nil {
					onEvent(len(o.Events))
				}
			})
			if entry == 0 {
				o.Err = p.ParseTest(ctx, &l)
			} else {
				_, o.Err = p.ParseDecl1(ctx, &l)
			}
			return o
		},
		dict:  c12Lexers[3].dict,
		tests: "/repo/parsers/test/parser_test.go",
	},
}

func shippedByName(name string) *shippedParser {
	for _, p := range shippedParsers {
		if p.name == name {
			return p
		}
	}
	return nil
}

var (
	corpusMu    sync.Mutex
	corpusCache = map[string][]string{}
)

// corpus returns valid-ish inputs of the language: shipped files and the string constants of the
// repository's own parser tests (markers removed). Sorted, so an index identifies an entry.
func (sp *shippedParser) corpus() []string {
	corpusMu.Lock()
	defer corpusMu.Unlock()
	if c, ok := corpusCache[sp.name]; ok {
		return c
	}
	set := map[string]bool{}
	for _, pat := range sp.files {
		files, _ := filepath.Glob(pat)
		for _, f := range files {
			data, err := os.ReadFile(f)
			if err != nil {
				continue
			}
			s := string(data)
			if len(s) <= 6000 {
				set[s] = true
				continue
			}
			// large files: windows of ~80 lines behind the first 12 lines (the header)
			lines := strings.SplitAfter(s, "\n")
			head := strings.Join(lines[:12], "")
			for i := 12; i < len(lines); i += 80 {
				j := i + 80
				if j > len(lines) {
					j = len(lines)
				}
				set[head+strings.Join(lines[i:j], "")] = true
			}
		}
	}
	if sp.tests != "" {
		for _, s := range goStringConstants(sp.tests) {
			s = strings.NewReplacer("«", "", "»", "", "§", "").Replace(s)
			if len(s) <= 6000 {
				set[s] = true
			}
		}
	}
	out := make([]string, 0, len(set))
	for s := range set {
		out = append(out, s)
	}
	sort.Strings(out)
	corpusCache[sp.name] = out
	return out
}

// goStringConstants evaluates every string-valued expression (literals, references to
// file-level string constants, concatenations) found inside composite literals of a Go file.
func goStringConstants(path string) []string {
	fset := token.NewFileSet()
	f, err := parser.ParseFile(fset, path, nil, 0)
	if err != nil {
		return nil
	}
	consts := map[string]string{}
	var eval func(e ast.Expr) (string, bool)
	eval = func(e ast.Expr) (string, bool) {
		switch e := e.(type) {
		case *ast.BasicLit:
			if e.Kind == token.STRING {
				s, err := strconv.Unquote(e.Value)
				return s, err == nil
			}
		case *ast.Ident:
			s, ok := consts[e.Name]
			return s, ok
		case *ast.BinaryExpr:
			if e.Op == token.ADD {
				a, ok1 := eval(e.X)
				b, ok2 := eval(e.Y)
				return a + b, ok1 && ok2
			}
		case *ast.ParenExpr:
			return eval(e.X)
		}
		return "", false
	}
	for pass := 0; pass < 3; pass++ {
		for _, d := range f.Decls {
			gd, ok := d.(*ast.GenDecl)
			if !ok || (gd.Tok != token.CONST && gd.Tok != token.VAR) {
				continue
			}
			for _, sp := range gd.Specs {
				vs := sp.(*ast.ValueSpec)
				for i, n := range vs.Names {
					if i < len(vs.Values) {
						if s, ok := eval(vs.Values[i]); ok {
							consts[n.Name] = s
						}
					}
				}
			}
		}
	}
	var out []string
	ast.Inspect(f, func(n ast.Node) bool {
		cl, ok := n.(*ast.CompositeLit)
		if !ok {
			return true
		}
		for _, el := range cl.Elts {
			if kv, ok := el.(*ast.KeyValueExpr); ok {
				el = kv.Value
			}
			if s, ok := eval(el); ok {
				out = append(out, s)
			}
		}
		return true
	})
	return out
}

// spCase is one generated input for a shipped parser.
type spCase struct {
	Parser string `json:"parser"`
	Entry  int    `json:"entry"`
	Src    []byte `json:"src"`
	Muts   int    `json:"muts"`
	Stop   int    `json:"stop,omitempty"` // error handler returns false at this call (0: never)
}

// spGenSrc draws a corpus entry and applies 0..4 mutations (splice, delete, insert, duplicate,
// truncate); one case in eight is pure dictionary soup.
func spGenSrc(t *rapid.T, sp *shippedParser) ([]byte, int) {
	corpus := sp.corpus()
	if len(corpus) == 0 || rapid.IntRange(0, 7).Draw(t, "soup") == 0 {
		return c12GenSrc(t, sp.dict), -1
	}
	s := corpus[rapid.IntRange(0, len(corpus)-1).Draw(t, "corpus")]
	n := rapid.IntRange(0, 4).Draw(t, "muts")
	for i := 0; i < n; i++ {
		pos := func(label string) int { return rapid.IntRange(0, len(s)).Draw(t, label) }
		switch rapid.IntRange(0, 7).Draw(t, "mut") {
		case 7: // a comment in (about) every second gap between tokens
			var sb strings.Builder
			prev := 0
			phase := rapid.IntRange(0, 1).Draw(t, "phase")
			if lx := c12LexerByName(sp.name); lx != nil {
				for i, tk := range lx.run(s, len(s)+3) {
					if tk.start < prev || tk.start > len(s) || tk.tok == 0 {
						break
					}
					sb.WriteString(s[prev:tk.start])
					if i%2 == phase && sb.Len() < 7000 {
						sb.WriteString("/* c */")
					}
					prev = tk.start
				}
			}
			sb.WriteString(s[prev:])
			s = sb.String()
		case 6: // insert a dictionary piece between two tokens (at a space)
			var spaces []int
			for i := 0; i < len(s); i++ {
				if s[i] == ' ' || s[i] == '\n' {
					spaces = append(spaces, i)
				}
			}
			if len(spaces) > 0 {
				a := spaces[rapid.IntRange(0, len(spaces)-1).Draw(t, "space")]
				s = s[:a] + " " + sp.dict[rapid.IntRange(0, len(sp.dict)-1).Draw(t, "dict")] + s[a:]
			}
		case 0: // delete a short span
			a := pos("a")
			b := a + rapid.IntRange(1, 6).Draw(t, "len")
			if b > len(s) {
				b = len(s)
			}
			s = s[:a] + s[b:]
		case 1: // insert a dictionary piece
			a := pos("a")
			s = s[:a] + sp.dict[rapid.IntRange(0, len(sp.dict)-1).Draw(t, "dict")] + s[a:]
		case 2: // duplicate a span
			a := pos("a")
			b := a + rapid.IntRange(1, 20).Draw(t, "len")
			if b > len(s) {
				b = len(s)
			}
			s = s[:b] + s[a:b] + s[b:]
		case 3: // truncate
			s = s[:pos("a")]
		case 4: // splice with another entry
			o := corpus[rapid.IntRange(0, len(corpus)-1).Draw(t, "corpus2")]
			a := pos("a")
			b := rapid.IntRange(0, len(o)).Draw(t, "b")
			s = s[:a] + o[b:]
		case 5: // replace one byte
			if len(s) > 0 {
				a := rapid.IntRange(0, len(s)-1).Draw(t, "a")
				s = s[:a] + string(rune(rapid.IntRange(32, 126).Draw(t, "ch"))) + s[a+1:]
			}
		}
		if len(s) > 8000 {
			s = s[:8000]
		}
	}
	return []byte(s), n
}

func spGen(only func(*shippedParser) bool) func(t *rapid.T) spCase {
	var ps []*shippedParser
	for _, p := range shippedParsers {
		if only == nil || only(p) {
			ps = append(ps, p)
		}
	}
	return func(t *rapid.T) spCase {
		sp := ps[rapid.IntRange(0, len(ps)-1).Draw(t, "parser")]
		c := spCase{Parser: sp.name}
		c.Src, c.Muts = spGenSrc(t, sp)
		c.Entry = 0
		if rapid.IntRange(0, 4).Draw(t, "otherEntry") == 0 {
			c.Entry = rapid.IntRange(0, len(sp.entries)-1).Draw(t, "entry")
		}
		if sp.recovering && rapid.IntRange(0, 5).Draw(t, "stop") == 0 {
			c.Stop = rapid.IntRange(1, 3).Draw(t, "stopAt")
		}
		return c
	}
}

// checkEventNesting verifies the C20 event invariants; it returns "" when they hold.
func checkEventNesting(evs []spEvent, n int) string {
	for i, e := range evs {
		if e.Off < 0 || e.Off > e.End || e.End > n {
			return fmt.Sprintf("out-of-range|event #%d %s [%d,%d) lies outside the input of %d bytes", i, e.Type, e.Off, e.End, n)
		}
	}
	// sweep in (offset asc, end desc) order with a stack of open containers
	idx := make([]int, len(evs))
	for i := range idx {
		idx[i] = i
	}
	sort.SliceStable(idx, func(a, b int) bool {
		x, y := evs[idx[a]], evs[idx[b]]
		if x.Off != y.Off {
			return x.Off < y.Off
		}
		return x.End > y.End
	})
	var stack []int
	for _, i := range idx {
		e := evs[i]
		for len(stack) > 0 && evs[stack[len(stack)-1]].End <= e.Off {
			stack = stack[:len(stack)-1]
		}
		if len(stack) > 0 {
			top := evs[stack[len(stack)-1]]
			if e.End > top.End {
				return fmt.Sprintf("partial-overlap|events #%d %s [%d,%d) and #%d %s [%d,%d) overlap without nesting", stack[len(stack)-1], top.Type, top.Off, top.End, i, e.Type, e.Off, e.End)
			}
		}
		// every open container that strictly contains e must have been reported after e
		for _, s := range stack {
			c := evs[s]
			if (c.Off != e.Off || c.End != e.End) && s < i {
				// an empty node on the container's boundary is not "strictly contained"
				if e.Off == e.End && (e.Off == c.Off || e.Off == c.End) {
					continue
				}
				return fmt.Sprintf("container-reported-first|event #%d %s [%d,%d) strictly contains #%d %s [%d,%d) but was reported before it", s, c.Type, c.Off, c.End, i, e.Type, e.Off, e.End)
			}
		}
		if e.Off < e.End {
			stack = append(stack, i)
		}
	}
	return ""
}

// checkTree verifies that tree (pre-order, root first; root is the synthetic file node when
// hasRoot) consists of exactly the reported events, that children lie inside their parents,
// siblings are in source order and do not overlap, and that no reported node fits strictly
// between a node and its parent (smallest container). Returns "" when it holds.
func checkTree(tree []spTreeNode, evs []spEvent, hasRoot bool) string {
	nodes := tree
	if hasRoot {
		if len(tree) == 0 || tree[0].Depth != 0 {
			return "no-root|the tree has no root node"
		}
		nodes = tree[1:]
	}
	count := map[spEvent]int{}
	for _, e := range evs {
		count[e]++
	}
	for _, n := range nodes {
		count[spEvent{n.Type, n.Off, n.End}]--
	}
	for e, c := range count {
		if c > 0 {
			return fmt.Sprintf("node-missing|reported node %s [%d,%d) is not in the tree", e.Type, e.Off, e.End)
		}
		if c < 0 {
			return fmt.Sprintf("node-invented|tree node %s [%d,%d) was never reported", e.Type, e.Off, e.End)
		}
	}
	// parents via depth
	var path []int // indices into tree of the current ancestors
	lastChild := map[int]int{}
	for i, n := range tree {
		if n.Depth > len(path) {
			return fmt.Sprintf("bad-depth|tree node #%d jumps to depth %d", i, n.Depth)
		}
		path = path[:n.Depth]
		if n.Depth > 0 {
			pi := path[n.Depth-1]
			p := tree[pi]
			if n.Off < p.Off || n.End > p.End {
				return fmt.Sprintf("child-outside-parent|%s [%d,%d) is a child of %s [%d,%d)", n.Type, n.Off, n.End, p.Type, p.Off, p.End)
			}
			if li, ok := lastChild[pi]; ok {
				prev := tree[li]
				if prev.End > n.Off || prev.Off > n.Off {
					return fmt.Sprintf("siblings-out-of-order|%s [%d,%d) precedes its sibling %s [%d,%d) under %s [%d,%d)", prev.Type, prev.Off, prev.End, n.Type, n.Off, n.End, p.Type, p.Off, p.End)
				}
			}
			lastChild[pi] = i
			// smallest container: no reported node strictly between n and p
			if n.Off < n.End {
				for _, z := range evs {
					zStrictlyContainsN := z.Off <= n.Off && n.End <= z.End && (z.Off != n.Off || z.End != n.End)
					pStrictlyContainsZ := p.Off <= z.Off && z.End <= p.End && (z.Off != p.Off || z.End != p.End)
					if zStrictlyContainsN && pStrictlyContainsZ {
						return fmt.Sprintf("not-smallest-container|%s [%d,%d) is attached to %s [%d,%d) although the reported node %s [%d,%d) contains it and is smaller", n.Type, n.Off, n.End, p.Type, p.Off, p.End, z.Type, z.Off, z.End)
					}
				}
			}
		}
		path = append(path, i)
	}
	return ""
}

// spErrOffset returns the offset of a SyntaxError returned by one of the shipped parsers.
func spErrOffset(err error) (int, bool) {
	switch e := err.(type) {
	case tm.SyntaxError:
		return e.Offset, true
	case js.SyntaxError:
		return e.Offset, true
	case ptest.SyntaxError:
		return e.Offset, true
	case json.SyntaxError:
		return e.Offset, true
	}
	return 0, false
}

// spReused holds one parser object per shipped parser. Every parse of the harness goes through
// Init + Parse on the same object, also right after a parse that ended in an error.
var spReused struct {
	tm   tm.Parser
	js   js.Parser
	json json.Parser
	test ptest.Parser
}
