package props

import (
	"fmt"
	"regexp"
	"strings"
	"testing"

	"github.com/inspirer/textmapper/grammar"
	"pgregory.net/rapid"

	"verif/harness/internal/batch"
	"verif/harness/internal/ev"
)

// C30 — the Bison export describes the grammar Textmapper parses.
// Oracle: grammar.Parser.Rules / Prec / Inputs of the same compile; the emitted .y file is parsed
// by a small reader written here.

type c30Case struct {
	C17 c17Case `json:"c"`
	P   []gPrec `json:"prec,omitempty"` // over egSpec terminals
}

func c30Gen(t *rapid.T) c30Case {
	c := c17Gen(t)
	c.Opts["writeBison"] = "true"
	delete(c.Opts, "genParser")
	c.Names = nil
	if len(c.G.Inputs) == 1 && rapid.IntRange(0, 2).Draw(t, "lastIsInput") == 0 {
		// the only input is the last nonterminal of the file (the .y file must keep the rule order
		// of the tables, whatever Bison would take as the start symbol)
		c.G.NTs = append(c.G.NTs, &egNT{Name: "Zstart", Alts: []*egAlt{{Parts: []*egPart{{K: "n", Sym: c.G.Inputs[0].NT}}}}})
		c.G.Inputs = []egInput{{NT: len(c.G.NTs) - 1, Eoi: c.G.Inputs[0].Eoi}}
	}
	var cc c30Case
	cc.C17 = c
	if rapid.IntRange(0, 1).Draw(t, "withPrec") == 0 {
		n := rapid.IntRange(1, 3).Draw(t, "precGroups")
		used := map[int]bool{}
		for i := 0; i < n; i++ {
			p := gPrec{Assoc: rapid.IntRange(0, 2).Draw(t, "assoc")}
			for j := 0; j < rapid.IntRange(1, 2).Draw(t, "pterms"); j++ {
				x := rapid.IntRange(1, c.G.T-1).Draw(t, "pterm")
				if !used[x] {
					used[x] = true
					p.Terms = append(p.Terms, x)
				}
			}
			if len(p.Terms) > 0 {
				cc.P = append(cc.P, p)
			}
		}
		// %prec markers on a few alternatives (only where no `-> Node` follows: the marker is a
		// rule part): on empty alternatives, with the rule's first terminal, with any terminal of a
		// precedence group
		var precTerms []int
		for _, p := range cc.P {
			precTerms = append(precTerms, p.Terms...)
		}
		for ni, nt := range cc.C17.G.NTs {
			for ai, a := range nt.Alts {
				if a.Node != "" || len(precTerms) == 0 || rapid.IntRange(0, 3).Draw(t, "rulePrec") != 0 {
					continue
				}
				term := precTerms[rapid.IntRange(0, len(precTerms)-1).Draw(t, "precTerm")]
				if rapid.IntRange(0, 3).Draw(t, "anyTerm") == 0 {
					// any terminal, also one without a precedence level (the marker then takes the
					// rule out of precedence resolution; it is still part of what the tables were built from)
					term = rapid.IntRange(1, c.G.T-1).Draw(t, "precAnyTerm")
				} else if len(a.Parts) > 1 && a.Parts[0].K == "t" && rapid.Bool().Draw(t, "firstTerm") {
					for _, pt := range precTerms {
						if pt == a.Parts[0].Sym {
							term = pt
						}
					}
				}
				if cc.C17.RulePrec == nil {
					cc.C17.RulePrec = map[string]int{}
				}
				cc.C17.RulePrec[fmt.Sprintf("%d:%d", ni, ai)] = term
			}
		}
	}
	return cc
}

func (c *c30Case) render(name string) string {
	src := c.C17.render(name)
	if len(c.P) == 0 {
		return src
	}
	var sb strings.Builder
	for _, p := range c.P {
		sb.WriteString([]string{"%left", "%right", "%nonassoc"}[p.Assoc])
		for _, t := range p.Terms {
			sb.WriteString(" " + egTerm(t))
		}
		sb.WriteString(";\n")
	}
	// precedence directives go right after the %input line
	i := strings.Index(src, "%input ")
	j := i + strings.Index(src[i:], "\n") + 1
	return src[:j] + sb.String() + src[j:]
}

type yRule struct {
	lhs  string
	rhs  []string
	prec string
}

type yFile struct {
	starts []string
	prec   [][]string // assoc + ids
	tokens []string
	rules  []yRule
}

var yMarker = regexp.MustCompile(`/\*\.[A-Za-z0-9_]+\*/`)

func parseY(text string) (*yFile, error) {
	secs := strings.Split(text, "\n%%\n")
	if len(secs) < 2 {
		return nil, fmt.Errorf("no %%%% separator")
	}
	y := &yFile{}
	for _, l := range strings.Split(secs[0], "\n") {
		l = strings.TrimSpace(l)
		switch {
		case strings.HasPrefix(l, "%start "):
			name := strings.TrimPrefix(l, "%start ")
			if strings.HasSuffix(name, "// no-eoi") {
				name = strings.TrimSpace(strings.TrimSuffix(name, "// no-eoi")) + " no-eoi"
			}
			y.starts = append(y.starts, name)
		case strings.HasPrefix(l, "%left "), strings.HasPrefix(l, "%right "), strings.HasPrefix(l, "%nonassoc "):
			y.prec = append(y.prec, strings.Fields(strings.TrimPrefix(l, "%")))
		case strings.HasPrefix(l, "%token "):
			y.tokens = append(y.tokens, strings.TrimPrefix(l, "%token "))
		}
	}
	cur := ""
	depth := 0 // open braces of a semantic action that continues on the following lines
	for _, l := range strings.Split(secs[1], "\n") {
		if depth > 0 || strings.HasPrefix(l, "\t") || (cur != "" && strings.HasPrefix(l, "{")) {
			// semantic actions are printed verbatim (first line indented, the rest as written)
			depth += strings.Count(l, "{") - strings.Count(l, "}")
			if depth < 0 {
				depth = 0
			}
			continue
		}
		switch {
		case strings.HasPrefix(l, "//"), strings.TrimSpace(l) == "":
			continue
		case l == ";":
			cur = ""
		case strings.HasSuffix(l, " :") && cur == "":
			cur = strings.TrimSuffix(l, " :")
		case strings.HasPrefix(l, "  ") || strings.HasPrefix(l, "| "):
			if cur == "" {
				return nil, fmt.Errorf("alternative outside a rule: %q", l)
			}
			body := yMarker.ReplaceAllString(l[2:], "")
			r := yRule{lhs: cur}
			f := strings.Fields(body)
			for i := 0; i < len(f); i++ {
				if f[i] == "%prec" && i+1 < len(f) {
					r.prec = f[i+1]
					i++
					continue
				}
				if f[i] == "%empty" {
					continue
				}
				r.rhs = append(r.rhs, f[i])
			}
			y.rules = append(y.rules, r)
		default:
			return nil, fmt.Errorf("unexpected line %q", l)
		}
	}
	return y, nil
}

func c30OnGenerated(c c30Case, res *batch.Result, r *ev.Recorder) *Failure {
	r.Eval(1)
	if res.CompileErr != nil {
		r.Excluded("compiler-rejects")
		return nil
	}
	src := c.render("g")
	if res.Crash != "" || res.GenErr != nil {
		return failf("generation-fails", "generation with writeBison fails: %v %s\ngrammar:\n%s", res.GenErr, oneLine(res.Crash, 300), src)
	}
	g := res.Grammar
	text, ok := res.Files[g.Name+".y"]
	if !ok {
		return failf("no-y-file", "writeBison = true but no %s.y was written; grammar:\n%s", g.Name, src)
	}
	y, err := parseY(text)
	if err != nil {
		return failf("y-unparsable", "cannot read the exported file: %v\n%s", err, text)
	}
	sym := func(s int) string {
		if s < g.NumTokens {
			return g.Syms[s].ID
		}
		return g.Syms[s].Name
	}
	// expected rules: grouped by nonterminal in first-occurrence order
	var want []yRule
	var order []int
	by := map[int][]*grammar.Rule{}
	for _, rl := range g.Parser.Rules {
		l := int(rl.LHS)
		if _, ok := by[l]; !ok {
			order = append(order, l)
		}
		by[l] = append(by[l], rl)
	}
	mid := false
	for _, l := range order {
		for _, rl := range by[l] {
			w := yRule{lhs: sym(l)}
			for _, s := range rl.RHS {
				if s.IsStateMarker() {
					continue
				}
				w.rhs = append(w.rhs, sym(int(s)))
				if strings.Contains(sym(int(s)), "$") {
					mid = true
				}
			}
			if rl.Precedence > 0 {
				w.prec = sym(int(rl.Precedence))
			}
			want = append(want, w)
		}
	}
	show := func(rs []yRule) string {
		var sb strings.Builder
		for _, x := range rs {
			fmt.Fprintf(&sb, "%s: %s", x.lhs, strings.Join(x.rhs, " "))
			if x.prec != "" {
				sb.WriteString(" %prec " + x.prec)
			}
			sb.WriteString("; ")
		}
		return sb.String()
	}
	if len(want) != len(y.rules) {
		return failf("rule-count", "the .y file lists %d productions, the parser tables were built from %d\n.y: %s\nrules: %s\ngrammar:\n%s", len(y.rules), len(want), show(y.rules), show(want), src)
	}
	for i := range want {
		a, b := want[i], y.rules[i]
		if a.lhs != b.lhs || strings.Join(a.rhs, " ") != strings.Join(b.rhs, " ") {
			return failf("rule-differs", "production #%d: the .y file has [%s], the parser uses [%s]\ngrammar:\n%s", i, show([]yRule{b}), show([]yRule{a}), src)
		}
		if a.prec != b.prec {
			return failf("rule-prec-differs", "production #%d: %%prec %q in the .y file, %q in the parser's rule\ngrammar:\n%s", i, b.prec, a.prec, src)
		}
	}
	// precedence declarations
	if len(y.prec) != len(g.Parser.Prec) {
		return failf("prec-count", "the .y file has %d precedence lines, the parser %d\ngrammar:\n%s", len(y.prec), len(g.Parser.Prec), src)
	}
	inPrec := map[string]bool{}
	for i, p := range g.Parser.Prec {
		w := []string{p.Associativity.String()}
		for _, t := range p.Terminals {
			w = append(w, sym(int(t)))
			inPrec[sym(int(t))] = true
		}
		if strings.Join(w, " ") != strings.Join(y.prec[i], " ") {
			return failf("prec-differs", "precedence line #%d: .y has %v, parser has %v\ngrammar:\n%s", i, y.prec[i], w, src)
		}
	}
	// %token: every terminal without precedence except eoi
	var wantTok []string
	for i := 1; i < g.NumTokens; i++ {
		if !inPrec[g.Syms[i].ID] {
			wantTok = append(wantTok, g.Syms[i].ID)
		}
	}
	if strings.Join(wantTok, " ") != strings.Join(y.tokens, " ") {
		return failf("tokens-differ", "%%token lines %v, expected %v\ngrammar:\n%s", y.tokens, wantTok, src)
	}
	// %start: inputs
	var wantStart []string
	for _, inp := range g.Parser.Inputs {
		n := g.Parser.Nonterms[inp.Nonterm].Name
		if inp.NoEoi {
			n += " no-eoi"
		}
		wantStart = append(wantStart, n)
	}
	if strings.Join(wantStart, ",") != strings.Join(y.starts, ",") {
		return failf("starts-differ", "%%start lines %v, parser inputs %v\ngrammar:\n%s", y.starts, wantStart, src)
	}
	if mid {
		r.Class("with-mid-rule-nonterminal")
	}
	if len(g.Parser.Prec) > 0 {
		r.Class("with-precedence")
	}
	if len(want) >= 4 {
		r.Nontrivial(src)
		if r.WantSample() {
			r.Sample(map[string]any{"grammar": src, "productions": len(want)})
		}
	}
	return nil
}

func TestC30(t *testing.T) {
	p := &batchProp[c30Case]{
		ID:          "C30",
		Rule:        "C17's grammar and option generator with writeBison = true (a third of the single-input cases: the only input is a nonterminal `Zstart` appended at the end of the file), plus 0..3 %left/%right/%nonassoc groups and %prec markers on a quarter of the unannotated alternatives (a terminal of a group, the rule's first terminal, or - one in four - any terminal, also one without a precedence level); compiled and generated in process (no build). The exported <name>.y is parsed (sections, %start, precedence lines, %token, `lhs :` blocks, `/*.marker*/` comments, %prec, %empty, action blocks skipped) and compared with grammar.Parser.Rules grouped by left-hand side in first-occurrence order (terminals by ID, nonterminals by name, markers ignored), Parser.Prec in order, the %token list (terminals without precedence, except eoi) and Parser.Inputs. Non-trivial: >=4 productions; distinct by grammar text.",
		Quick:       3000, Thorough: 120000, BatchSize: 200,
		Gen:         c30Gen,
		Unit:        func(c c30Case, name string) (batch.Unit, bool) { return batch.Unit{Name: name, TM: c.render(name)}, true },
		OnGenerated: c30OnGenerated,
	}
	p.run(t)
}
