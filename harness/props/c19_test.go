package props

import (
	"encoding/json"
	"errors"
	"fmt"
	"strings"
	"testing"

	"pgregory.net/rapid"

	"github.com/inspirer/textmapper/grammar"

	"verif/harness/internal/batch"
	"verif/harness/internal/ev"
)

// C19 — error recovery is safe and transparent (generated Go code).
// Oracle: (a) invariants on the handler calls; (b) differential: the same grammar generated
// without any 'error' alternative must produce the same events/result on every sentence.

type c19Err struct {
	NT     int    `json:"nt"`
	Follow int    `json:"follow"` // terminal after 'error' (0: none)
	Lead   int    `json:"lead"`   // terminal before 'error' (0: none)
	Node   string `json:"node,omitempty"`
}

type c19Case struct {
	G     egSpec   `json:"g"`
	Errs  []c19Err `json:"errs"`
	Space bool     `json:"space"`
	Opt   bool     `json:"optimize"`
	FixWS bool     `json:"fixws"`
	Scope bool     `json:"scope"` // .recoveryScope marker in front of the first nonterminal reference
	Seed  int      `json:"seed"`
}

func c19Gen(t *rapid.T) c19Case {
	c := c19Case{
		G:     genEG(t, egGenOpts{MaxNT: 4, Terms: 6, NodePct: 50, Lists: true, MaxDepth: 2, NestedNode: false}),
		Space: rapid.Bool().Draw(t, "space"),
		Opt:   rapid.Bool().Draw(t, "optimize"),
		Seed:  rapid.IntRange(0, 1<<30).Draw(t, "seed"),
	}
	c.FixWS = c.Space
	n := rapid.IntRange(1, 3).Draw(t, "nerr")
	for i := 0; i < n; i++ {
		e := c19Err{NT: rapid.IntRange(0, len(c.G.NTs)-1).Draw(t, "ent")}
		if rapid.IntRange(0, 2).Draw(t, "follow") > 0 {
			e.Follow = rapid.IntRange(1, c.G.T-1).Draw(t, "fterm")
		}
		if rapid.IntRange(0, 3).Draw(t, "lead") == 0 {
			e.Lead = rapid.IntRange(1, c.G.T-1).Draw(t, "lterm")
		}
		if rapid.Bool().Draw(t, "enode") {
			e.Node = "Bad"
		}
		c.Errs = append(c.Errs, e)
	}
	// .recoveryScope markers: recovery does not look below a state that carries one. One marker
	// gives a single marked state (or a few), two markers in different rules give several.
	for n := rapid.IntRange(0, 2).Draw(t, "scopes"); n > 0; n-- {
		c.Scope = true
		nt := c.G.NTs[rapid.IntRange(0, len(c.G.NTs)-1).Draw(t, "scopeNT")]
		a := nt.Alts[rapid.IntRange(0, len(nt.Alts)-1).Draw(t, "scopeAlt")]
		if len(a.Parts) == 0 {
			continue
		}
		pos := rapid.IntRange(1, len(a.Parts)).Draw(t, "scopePos")
		a.Parts = append(a.Parts[:pos:pos], append([]*egPart{{K: "mark", Sym: 99}}, a.Parts[pos:]...)...)
	}
	return c
}

func (c *c19Case) render(name string, recovery bool) string {
	opts := map[string]string{"eventBased": "true", "optimizeTables": fmt.Sprint(c.Opt)}
	if c.FixWS {
		opts["fixWhitespace"] = "true"
	}
	var suffix func(nt, alt int) string
	if recovery {
		opts["__lexer"] = "error:\ninvalid_token:\n"
		suffix = func(nt, alt int) string {
			if alt != len(c.G.NTs[nt].Alts)-1 {
				return ""
			}
			var sb strings.Builder
			for _, e := range c.Errs {
				if e.NT != nt {
					continue
				}
				sb.WriteString("\n  |")
				if e.Lead != 0 {
					sb.WriteString(" " + egTerm(e.Lead))
				}
				sb.WriteString(" error")
				if e.Follow != 0 {
					sb.WriteString(" " + egTerm(e.Follow))
				}
				if e.Node != "" {
					sb.WriteString(" -> " + e.Node)
				}
			}
			return sb.String()
		}
	}
	return c.G.render(name, opts, c.Space, "", suffix)
}

func c19Run(run runFunc, entry int, src, arg string) (string, string, error) {
	for attempt := 0; ; attempt++ {
		out, pan, err := run(entry, src, arg)
		if errors.Is(err, batch.ErrHang) && attempt < 2 {
			continue
		}
		return out, pan, err
	}
}

func c19Check(c c19Case, res *batch.Result, run runFunc, r *ev.Recorder) *Failure {
	if !res.Grammar.Parser.IsRecovering {
		r.Excluded("no-recovery-code-generated")
		return nil
	}
	twin := currentTwin
	g := c.G
	desc := func() string { return c.render("g", true) }
	resumed, sentences := false, 0
	for ii, inp := range g.Inputs {
		for s := 0; s < 40; s++ {
			_, toks := g.derive(inp.NT, c.Seed+s*17+ii, 3+s%8)
			if len(toks) > 40 {
				continue
			}
			// 1. sentences: transparent
			src, _ := egSource(toks, c.Space, c.Seed+s)
			out, pan, err := c19Run(run, ii, src, "")
			r.Eval(1)
			where := fmt.Sprintf("input %s, source %q; grammar:\n%s", g.NTs[inp.NT].Name, src, desc())
			if err != nil {
				return failf("parser-hangs-or-dies", "recovering parser: %v (after retries) on %s", err, where)
			}
			if pan != "" {
				return failf("parser-panics", "recovering parser panics: %s on %s", oneLine(pan, 300), where)
			}
			if strings.Contains(out, "!") || !strings.HasSuffix(out, "|ok") {
				return failf("error-on-sentence", "the recovering parser reports a syntax error (%q) on a sentence: %s", out, where)
			}
			if twin != nil {
				out2, pan2, err2 := c19Run(twin.run, ii, src, "")
				if err2 == nil && pan2 == "" && strings.HasSuffix(out2, "|ok") {
					sentences++
					if out != out2 {
						return failf("events-differ-from-recovery-free-parser", "on a sentence the recovering parser reports %q, the same grammar without 'error' rules reports %q; %s", out, out2, where)
					}
				}
			}
			// 2. invalid inputs derived from the sentence
			rnd := &lcg{uint64(c.Seed + s)}
			for m := 0; m < 3; m++ {
				bad := append([]int(nil), toks...)
				switch rnd.next(5) {
				case 0:
					if len(bad) > 0 {
						p := rnd.next(len(bad))
						bad = append(bad[:p:p], bad[p+1:]...)
					}
				case 1:
					p := rnd.next(len(bad) + 1)
					bad = append(bad[:p:p], append([]int{1 + rnd.next(g.T-1)}, bad[p:]...)...)
				case 2:
					if len(bad) > 0 {
						bad[rnd.next(len(bad))] = 1 + rnd.next(g.T-1)
					}
				case 3:
					bad = nil
					for i := 0; i < rnd.next(9); i++ {
						bad = append(bad, 1+rnd.next(g.T-1))
					}
				case 4:
					for i := 0; i < 1+rnd.next(4); i++ {
						bad = append(bad, 1+rnd.next(g.T-1))
					}
				}
				bsrc, _ := egSource(bad, c.Space, c.Seed+s+m)
				if rnd.next(6) == 0 {
					bsrc += "#" // a character no lexer rule matches (invalid token)
				}
				arg := ""
				if rnd.next(5) == 0 {
					arg = "stop"
				}
				bout, bpan, berr := c19Run(run, ii, bsrc, arg)
				r.Eval(1)
				bwhere := fmt.Sprintf("input %s, source %q (handler arg %q); grammar:\n%s", g.NTs[inp.NT].Name, bsrc, arg, desc())
				if berr != nil {
					return failf("parser-hangs-or-dies", "recovering parser: %v (after retries) on %s", berr, bwhere)
				}
				if bpan != "" {
					return failf("parser-panics", "recovering parser panics: %s on %s", oneLine(bpan, 400), bwhere)
				}
				bar := strings.LastIndex(bout, "|")
				if bar < 0 {
					return failf("adapter-output", "bad adapter output %q", bout)
				}
				prev := -1
				sawErr := false
				for _, evt := range strings.Split(strings.TrimSuffix(bout[:bar], ","), ",") {
					if !strings.HasPrefix(evt, "!") {
						if sawErr && evt != "" {
							resumed = true
						}
						continue
					}
					sawErr = true
					var off, end int
					fmt.Sscanf(evt, "!%d:%d", &off, &end)
					if off < 0 || off > end || end > len(bsrc) {
						return failf("error-range-outside-input", "the error handler received the range [%d,%d) for an input of %d bytes: %s (events %q)", off, end, len(bsrc), bwhere, bout)
					}
					if off < prev {
						return failf("error-offsets-decrease", "the error handler received offset %d after offset %d: %s (events %q)", off, prev, bwhere, bout)
					}
					prev = off
				}
				if !sawErr && twin != nil {
					// nothing was reported: the input has to be a sentence (the recovery-free twin
					// parses the same language; also with a parser object that has parsed before)
					out2, pan2, err2 := c19Run(twin.run, ii, bsrc, "")
					if k := strings.LastIndex(out2, "|"); err2 == nil && pan2 == "" && k >= 0 && strings.HasPrefix(out2[k:], "|err ") {
						return failf("error-not-reported-on-non-sentence", "the recovering parser returns %q without calling the error handler, the same grammar without 'error' rules rejects the input (%q): %s", bout, out2, bwhere)
					}
					r.Class("mutant-is-a-sentence")
				}
				if strings.HasPrefix(bout[bar+1:], "err ") {
					var off, end int
					fmt.Sscanf(bout[bar+1:], "err %d %d", &off, &end)
					if off < 0 || off > end || end > len(bsrc) {
						return failf("returned-error-range-outside-input", "Parse returned a SyntaxError at [%d,%d) for an input of %d bytes: %s", off, end, len(bsrc), bwhere)
					}
				}
			}
		}
	}
	if twin == nil {
		r.Class("twin-not-available(conflicts)")
	}
	if resumed && sentences > 0 {
		js, _ := json.Marshal(c)
		r.Nontrivial(string(js))
		r.Class("recovery-resumed")
		if r.WantSample() {
			r.Sample(map[string]any{"grammar": desc(), "sentences_compared": sentences})
		}
	}
	return nil
}

func TestC19(t *testing.T) {
	p := &batchProp[c19Case]{
		ID:        "C19",
		Rule:      "event-based grammars in extended notation (C02 generator without nested annotations) plus 1..3 recovery alternatives of the shapes `error`, `error t`, `t error`, `t error t` (optionally `-> Bad`) added to chosen nonterminals, with/without a skipped space token + fixWhitespace, optimizeTables on/off; every grammar is generated twice in one batch: with the recovery alternatives and without them. Per input 40 sentences (derived from the spec) and 3 invalid variants each (token deleted/inserted/replaced, random tokens, trailing garbage, an unmatched character). Invariants: no panic, the parse returns (10 s watchdog, hangs retried twice), every SyntaxError passed to the handler (and the returned one) lies inside the input and handler offsets never decrease; on sentences the handler is never called and the listener events equal those of the recovery-free twin. Non-trivial: a grammar where recovery resumed after an error on some invalid input and at least one sentence was compared with the twin; distinct by case JSON.",
		Assume:    []string{"a hang is reported only when it reproduces three times; one-off timeouts are retried", "all inputs of a grammar are parsed with one Parser value per process (Init once); a mutated input on which no error is reported and nil is returned must be accepted by the recovery-free twin grammar"},
		Quick:     48, Thorough: 800, BatchSize: 48,
		Gen:       c19Gen,
		Unit:      func(c c19Case, name string) (batch.Unit, bool) { return batch.Unit{Name: name, TM: c.render(name, true), Adapter: eventAdapterReuse}, true },
		Twin:      func(c c19Case, name string) (batch.Unit, bool) { return batch.Unit{Name: name, TM: c.render(name, false), Adapter: eventAdapterReuse}, true },
		Check:     c19Check,
	}
	p.run(t)
}

// TestC19S: the shipped recovering parsers (tm, js) on mutated corpus inputs.
func c19sCheck(c spCase, r *ev.Recorder) *Failure {
	sp := shippedByName(c.Parser)
	if sp == nil || !sp.recovering || c.Entry >= len(sp.entries) {
		return nil
	}
	src := string(c.Src)
	o, hung := spRun(sp, c)
	r.Eval(1)
	where := fmt.Sprintf("%s parser, entry %s, input %q", sp.name, sp.entries[c.Entry], src)
	if hung {
		return failf("hang:"+sp.name, "the parse did not return within 20 s: %s", where)
	}
	prev := -1
	for i, e := range o.Errors {
		if e.Off < 0 || e.Off > e.End || e.End > len(src) {
			return failf("error-range-outside-input:"+sp.name, "handler call #%d received [%d,%d) for an input of %d bytes; %s", i, e.Off, e.End, len(src), where)
		}
		if e.Off < prev {
			return failf("error-offsets-decrease:"+sp.name, "handler call #%d received offset %d after offset %d; %s", i, e.Off, prev, where)
		}
		prev = e.Off
	}
	if o.Err == nil && len(o.Errors) == 0 {
		r.Class(sp.name + ":sentence")
		return nil
	}
	if o.Err != nil && len(o.Errors) == 0 {
		return failf("error-not-reported:"+sp.name, "Parse returned %v without calling the error handler; %s", o.Err, where)
	}
	if c.Stop > 0 && len(o.Errors) >= c.Stop {
		if o.Err == nil {
			return failf("handler-stop-ignored:"+sp.name, "the handler returned false at call %d but Parse returned nil; %s", c.Stop, where)
		}
		if len(o.Errors) > c.Stop {
			return failf("handler-stop-ignored:"+sp.name, "the handler returned false at call %d but was called %d times; %s", c.Stop, len(o.Errors), where)
		}
		r.Class(sp.name + ":stopped-by-handler")
		return nil
	}
	if o.Err == nil {
		r.Class(sp.name + ":recovered")
		if len(o.Errors) >= 2 {
			r.Nontrivial(sp.name + "\x00" + src)
		}
		if r.WantSample() && len(src) < 80 {
			r.Sample(map[string]any{"parser": sp.name, "input": src, "handler_calls": len(o.Errors)})
		}
	} else {
		r.Class(sp.name + ":gave-up")
		r.Nontrivial(sp.name + "\x00" + src)
	}
	return nil
}

func TestC19S(t *testing.T) {
	p := &prop[spCase]{
		ID:   "C19",
		Rule: "shipped recovering parsers (tm, js) on the C20 corpus with 0..4 mutations or dictionary soup, any entry point, handler continuing or returning false at call 1..3. Invariants: the parse returns (20 s watchdog) without panic, handler ranges lie inside the input with non-decreasing offsets, an error result implies at least one handler call, a false result from the handler ends the parse with an error and no further calls. Non-trivial: input with at least two handler calls or on which recovery gave up; distinct by (parser, input).",
		Quick: 20000, Thorough: 1500000,
		Gen:   spGen(func(sp *shippedParser) bool { return sp.recovering }),
		Check: c19sCheck,
	}
	p.run(t)
}

// eventAdapterReuse is eventAdapter with one Parser value per process: Init runs once, every
// VerifRun parses with the same parser (the result of a parse must not depend on the parses
// before it, e.g. on an error-suppression counter left over from a failed recovery).
func eventAdapterReuse(g *grammar.Grammar, files map[string]string) map[string]string {
	code := eventAdapter(g, files)["verif_export.go"]
	code = strings.Replace(code, "func VerifRun(", "var (\n\tsb strings.Builder\n\tp Parser\n\tnerr int\n\tverifArg string\n\tverifInited bool\n)\n\nfunc VerifRun(", 1)
	code = strings.Replace(code, "\tvar sb strings.Builder\n", "\tsb.Reset()\n\tverifArg = arg\n", 1)
	code = strings.Replace(code, "\tvar p Parser\n", "", 1)
	code = strings.Replace(code, "\tnerr := 0\n", "\tnerr = 0\n", 1)
	code = strings.Replace(code, "arg != \"stop\"", "verifArg != \"stop\"", 1)
	lines := strings.Split(code, "\n")
	for i, l := range lines {
		if strings.HasPrefix(l, "\tp.Init(") {
			lines[i] = "\tif !verifInited {\n\t\tverifInited = true\n\t" + l + "\n\t}"
		}
	}
	return map[string]string{"verif_export.go": strings.Join(lines, "\n")}
}
