package props

import (
	"context"
	"encoding/json"
	"errors"
	"fmt"
	"hash/fnv"
	"strconv"
	"strings"
	"testing"

	"pgregory.net/rapid"

	"github.com/inspirer/textmapper/grammar"
	"verif/harness/internal/batch"
	"verif/harness/internal/ev"
)

// C29 — cancellation never yields a wrong parse. The harness owns the schedule: the context is
// cancelled from inside the listener when the k-th event is reported (or before the parse
// starts), so every cancellation point relative to parser progress can be generated and
// replayed. Oracle: differential against the uncancelled parse of the same input, plus a bound
// on the tokens consumed after the cancellation.

// c29Bound is the number of tokens the parser may still shift after the cancellation. The
// template checks the context every 512 shifts; the check tolerates four times that.
const c29Bound = 2048

// ---------- shipped parsers (tm, js, test)

type c29sCase struct {
	Parser string `json:"parser"`
	Units  []int  `json:"units"`  // indices into the language's statement list
	Break  int    `json:"break"`  // >0: a broken statement is inserted after this many units
	Every  int    `json:"every,omitempty"` // >0: and again after every so many further units
	Cancel []int  `json:"cancel"` // event numbers at which a run cancels (0: before the start)
}

var c29Units = map[string]struct {
	head, tail string
	units      []string
	broken     string
}{
	"tm": {
		head:   "language l(go);\n\nlang = \"l\"\n\n:: lexer\n\nid: /[a-z]+/\nnum: /[0-9]+/ (space)\n'+': /\\+/\n\n:: parser\n\n%input a;\n\n",
		units:  []string{"a: id b? | num ;\n", "b -> B: (id separator '+')+ ;\n", "c {int}: a b { $$ = 1 } ;\n", "# comment\n", "%left '+';\n", "d<flag F>: [F] id | [!F] num -> N ;\n", "e: set(id | num)* /* c */ ;\n", "f: (?= a) id .mark num %prec '+' ;\n"},
		broken: "g: ( : ; ;\n",
	},
	"js": {
		units:  []string{"var a = 1;\n", "f(a, b);\n", "if (x) { y(); } else z = 2\n", "a = b + c * d;\n", "function f(q) { return q?.r ?? 1 }\n", "class A extends B { m() {} }\n", "for (let i = 0; i < 3; i++) x += `t${i}`;\n", "// comment\n", "let {a, b: [c]} = o, s = /re/g;\n", "x = (a, b) => ({a, b})\n",
			// lookaheads nested in lookaheads, long enough for the polling interval to end inside
			"g = (a = (b, c, d, e, f, h, i, j, k, l, m, n, o, p, q, r, s, t, u, v, w) => 1, z = (y) => 2) => 3;\n",
			"h = (a = (b = (c, d, e, f, g, i, j, k, l, m, n, o, p, q, r, s) => 1) => 2) => 3;\n"},
		broken: "var = ) 1;\n",
	},
	"test": {
		units:  []string{"decl1(a.b.c)\n", "decl2 ", "{ decl2 decl1(x) }\n", "5 ", "7 [] ", "test decl1 test\n", "test { x y 3 }\n", "test ( )\n", "decl2 : a.b\n", "z z z x ", "// c\n", "/* m */ ", "9 "},
		broken: "decl1 ( ) ",
	},
}

func (c *c29sCase) source() string {
	u := c29Units[c.Parser]
	var sb strings.Builder
	sb.WriteString(u.head)
	for i, x := range c.Units {
		if c.Break > 0 && (i == c.Break || c.Every > 0 && i > c.Break && (i-c.Break)%c.Every == 0) {
			sb.WriteString(u.broken)
		}
		sb.WriteString(u.units[x%len(u.units)])
	}
	sb.WriteString(u.tail)
	return sb.String()
}

func c29sGen(t *rapid.T) c29sCase {
	names := []string{"tm", "js", "test"}
	c := c29sCase{Parser: names[rapid.IntRange(0, 2).Draw(t, "parser")]}
	n := rapid.IntRange(1, 1200).Draw(t, "units")
	if rapid.IntRange(0, 3).Draw(t, "short") == 0 {
		n = rapid.IntRange(1, 60).Draw(t, "fewUnits")
	}
	nu := len(c29Units[c.Parser].units)
	// a short random prefix, then a repeating pattern (keeps the case small and shrinkable)
	pat := rapid.SliceOfN(rapid.IntRange(0, nu-1), 1, 12).Draw(t, "pattern")
	for i := 0; i < n; i++ {
		c.Units = append(c.Units, pat[i%len(pat)])
	}
	if c.Parser != "test" && rapid.IntRange(0, 3).Draw(t, "broken") == 0 {
		c.Break = rapid.IntRange(1, n).Draw(t, "break")
		if rapid.Bool().Draw(t, "periodic") {
			// recovery runs again and again: fewer than 512 shifts between two errors
			c.Break = rapid.IntRange(1, min(n, 40)).Draw(t, "firstBreak")
			c.Every = rapid.IntRange(1, 40).Draw(t, "every")
		}
	}
	c.Cancel = []int{0}
	for i := 0; i < 5; i++ {
		c.Cancel = append(c.Cancel, rapid.IntRange(1, 20000).Draw(t, "cancelAt"))
	}
	return c
}

// c29Ctx is a context with an error of its own.
type c29Ctx struct {
	context.Context
	done chan struct{}
	err  error
}

var errC29 = errors.New("verif: stop requested")

func (c *c29Ctx) Done() <-chan struct{} { return c.done }
func (c *c29Ctx) Err() error            { return c.err }
func (c *c29Ctx) cancel() {
	if c.err == nil {
		c.err = errC29
		close(c.done)
	}
}

func hashEvents(evs []spEvent) uint64 {
	h := fnv.New64a()
	for _, e := range evs {
		fmt.Fprintf(h, "%s:%d:%d,", e.Type, e.Off, e.End)
	}
	return h.Sum64()
}

func sameErr(a, b error) bool {
	if a == nil || b == nil {
		return a == nil && b == nil
	}
	return a.Error() == b.Error()
}

func c29sCheck(c c29sCase, r *ev.Recorder) *Failure {
	sp := shippedByName(c.Parser)
	if sp == nil || len(c.Units) == 0 {
		return nil
	}
	src := c.source()
	base := sp.parse(context.Background(), 0, src, 0, nil)
	r.Eval(1)
	lx := c12LexerByName(c.Parser)
	toks := lx.run(src, len(src)+3)
	short := func() string { return fmt.Sprintf("%s parser, %d units (%d bytes, %d tokens, %d events uncancelled), break=%d every=%d", c.Parser, len(c.Units), len(src), len(toks), len(base.Events), c.Break, c.Every) }
	// tokens skipped by error recovery are consumed but not shifted; all of them lie inside a
	// SyntaxProblem node of the uncancelled parse, so tokens inside those nodes are not counted
	var problems []spEvent
	for _, e := range base.Events {
		if e.Type == "SyntaxProblem" {
			problems = append(problems, e)
		}
	}
	if len(base.Errors) > 0 && len(problems) == 0 {
		problems = append(problems, spEvent{Off: 0, End: len(src)}) // unknown shape: no bound
	}
	shiftedBetween := func(lo, hi int) int {
		n := 0
	next:
		for _, t := range toks {
			if t.start < lo || t.start >= hi || t.tok == 0 {
				continue
			}
			for _, p := range problems {
				if t.start >= p.Off && t.start < p.End {
					continue next
				}
			}
			n++
		}
		return n
	}
	sawCtx, sawDone := false, false
	for ci, k0 := range c.Cancel {
		k := k0
		if k > 0 && len(base.Events) > 0 {
			k = 1 + (k0-1)%len(base.Events)
		}
		// every second run uses a context of the harness' own, whose Err() is not
		// context.Canceled: the parse has to return the context's error, whatever it is
		var ctx context.Context
		var cancel func()
		if ci%2 == 1 {
			own := &c29Ctx{Context: context.Background(), done: make(chan struct{})}
			ctx, cancel = own, own.cancel
		} else {
			ctx, cancel = context.WithCancel(context.Background())
		}
		posAtCancel := 0
		var got spOutcome
		if k == 0 {
			cancel()
			got = sp.parse(ctx, 0, src, 0, nil)
		} else {
			got = sp.parse(ctx, 0, src, 0, func(n int) {
				if n == k {
					cancel()
				}
			})
			for _, e := range got.Events[:min(k, len(got.Events))] {
				if e.End > posAtCancel {
					posAtCancel = e.End
				}
			}
		}
		cancel()
		r.Eval(1)
		if got.Err != nil && got.Err != ctx.Err() && (errors.Is(got.Err, context.Canceled) || errors.Is(got.Err, context.DeadlineExceeded) || errors.Is(got.Err, errC29)) {
			return failf("foreign-context-error:"+c.Parser, "cancelled at event %d the parse returned %q, the context's error is %q; %s", k, got.Err, ctx.Err(), short())
		}
		if got.Err != nil && got.Err == ctx.Err() {
			sawCtx = true
			posEnd := 0
			for _, e := range got.Events {
				if e.End > posEnd {
					posEnd = e.End
				}
			}
			if n := shiftedBetween(posAtCancel, posEnd); n > c29Bound+64 {
				return failf("late-stop:"+c.Parser, "cancelled at event %d (input position >= %d) the parser went on reporting nodes up to offset %d, %d tokens later (bound %d); %s", k, posAtCancel, posEnd, n, c29Bound, short())
			}
			continue
		}
		if !sameErr(got.Err, base.Err) || len(got.Events) != len(base.Events) || hashEvents(got.Events) != hashEvents(base.Events) {
			return failf("wrong-parse:"+c.Parser, "cancelled at event %d the parse returned %v with %d events; the uncancelled parse returns %v with %d events; %s", k, got.Err, len(got.Events), base.Err, len(base.Events), short())
		}
		sawDone = true
		// the uncancelled parse consumed the input up to its end or up to the returned error
		stop := len(src)
		if off, ok := spErrOffset(base.Err); ok {
			stop = off
		}
		if rest := shiftedBetween(posAtCancel, stop); rest > c29Bound+64 {
			return failf("cancellation-ignored:"+c.Parser, "cancelled at event %d (input position <= offset %d plus one statement) with %d tokens left, the parse ran to completion (bound %d); %s", k, posAtCancel, rest, c29Bound, short())
		}
	}
	r.Class(c.Parser + map[bool]string{true: ":ctx-error-seen", false: ":always-completed"}[sawCtx])
	if sawCtx && sawDone {
		r.Nontrivial(fmt.Sprint(c.Parser, c.Units[:min(12, len(c.Units))], len(c.Units), c.Break, c.Cancel))
		if r.WantSample() {
			r.Sample(map[string]any{"parser": c.Parser, "units": len(c.Units), "tokens": len(toks), "cancel_points": c.Cancel})
		}
	}
	return nil
}

func TestC29S(t *testing.T) {
	p := &prop[c29sCase]{
		ID:   "C29",
		Rule: "shipped cancellable parsers tm, js, test on long inputs assembled from 1..1200 statements of a per-language list (repeating random pattern; for tm/js optionally a broken statement, once or again every 1..40 statements, so that recovery runs), up to ~15000 tokens; six runs per input: context cancelled before the parse and from inside the listener at five generated event numbers. Every second run uses a context type of the harness whose Err() is an error of its own. Each run must return the context's error (exactly ctx.Err(), not another context error) or reproduce error value, event count and event hash of the uncancelled parse; after a context error the reported nodes must not reach more than 2048(+64) tokens beyond the cancellation point, and a run that completed must have had at most that many tokens left (tokens inside SyntaxProblem nodes of the uncancelled parse are not counted: recovery skips them without shifting). Non-trivial: an input for which both outcomes (context error and normal completion) occurred; distinct by (parser, pattern, length, cancel points).",
		Assume: []string{"the parser position at cancellation is estimated from the largest end offset reported so far (lags by at most one statement of the generated inputs)", "the bound tolerated is 4x the template's 512-shift polling interval"},
		Quick:  600, Thorough: 30000,
		Gen:   c29sGen,
		Check: c29sCheck,
	}
	p.run(t)
}

// ---------- generated parsers

type c29Case struct {
	G      egSpec   `json:"g"`
	Errs   []c19Err `json:"errs,omitempty"`
	Space  bool     `json:"space"`
	Opt    bool     `json:"optimize"`
	Stream bool     `json:"stream"`
	Fetch  bool     `json:"fetch"` // cancellableFetch
	Seed   int      `json:"seed"`
	Cancel []int    `json:"cancel"`
}

func c29Gen(t *rapid.T) c29Case {
	c := c29Case{
		G:      genEG(t, egGenOpts{MaxNT: 3, Terms: 5, NodePct: 80, Lists: true, MaxDepth: 2, NestedNode: true}),
		Space:  rapid.Bool().Draw(t, "space"),
		Opt:    rapid.Bool().Draw(t, "optimize"),
		Stream: rapid.Bool().Draw(t, "stream"),
		Fetch:  rapid.Bool().Draw(t, "fetch"),
		Seed:   rapid.IntRange(0, 1<<30).Draw(t, "seed"),
	}
	if rapid.IntRange(0, 2).Draw(t, "recovery") == 0 {
		c.Errs = []c19Err{{NT: c.G.Inputs[0].NT, Node: "Bad"}}
	}
	for i := 0; i < 6; i++ {
		c.Cancel = append(c.Cancel, rapid.IntRange(1, 30000).Draw(t, "cancelAt"))
	}
	return c
}

// spec wraps the first input X into `Root: (X ';')+` with a fresh terminal.
func (c *c29Case) spec() *egSpec {
	g := c.G
	semi := g.T
	g.T++
	elem := &egAlt{Parts: []*egPart{{K: "n", Sym: c.G.Inputs[0].NT}, {K: "t", Sym: semi}}, Node: "Item"}
	g.NTs = append(append([]*egNT(nil), g.NTs...), &egNT{Name: "Root", Alts: []*egAlt{{Parts: []*egPart{{K: "list", Plus: true, Alts: []*egAlt{elem}}}}}})
	g.Inputs = []egInput{{NT: len(g.NTs) - 1, Eoi: true}}
	return &g
}

func (c *c29Case) render(name string) string {
	g := c.spec()
	opts := map[string]string{"eventBased": "true", "cancellable": "true", "optimizeTables": fmt.Sprint(c.Opt)}
	if c.Space {
		opts["fixWhitespace"] = "true"
	}
	if c.Stream {
		opts["tokenStream"] = "true"
	}
	if c.Fetch {
		opts["cancellableFetch"] = "true"
	}
	var suffix func(nt, alt int) string
	if len(c.Errs) > 0 {
		opts["__lexer"] = "error:\ninvalid_token:\n"
		suffix = func(nt, alt int) string {
			if nt >= len(c.G.NTs) || alt != len(c.G.NTs[nt].Alts)-1 {
				return ""
			}
			for _, e := range c.Errs {
				if e.NT == nt {
					return "\n  | error -> " + e.Node
				}
			}
			return ""
		}
	}
	return g.render(name, opts, c.Space, "", suffix)
}

// cancelAdapter: VerifRun(_, src, arg) with arg = event number at which the listener cancels the
// context (0: before the parse, -1: never). Returns
// "<event count>:<event hash>|<ok | ctx | err off end | other msg>|<lexer offset at cancel>|<lexer offset at return>".
func cancelAdapter(g *grammar.Grammar, files map[string]string) map[string]string {
	var sb strings.Builder
	fmt.Fprintf(&sb, "package %s\n\nimport (\n\t\"context\"\n\t\"errors\"\n\t\"fmt\"\n\t\"hash/fnv\"\n\t\"strconv\"\n)\n\n", g.Name)
	sb.WriteString("func VerifRun(entry int, src string, arg string) string {\n\tk, _ := strconv.Atoi(arg)\n\tctx, cancel := context.WithCancel(context.Background())\n\tdefer cancel()\n\th := fnv.New64a()\n\tn, posAtCancel := 0, -1\n")
	pos := "lx.Pos()"
	if g.Options.TokenStream {
		sb.WriteString("\tvar lx TokenStream\n")
		pos = "lx.lexer.Pos()"
	} else {
		sb.WriteString("\tvar lx Lexer\n")
	}
	fmt.Fprintf(&sb, "\tlistener := func(t NodeType, offset, endoffset int) {\n\t\tn++\n\t\tfmt.Fprintf(h, \"%%d:%%d:%%d,\", int(t), offset, endoffset)\n\t\tif n == k {\n\t\t\tcancel()\n\t\t\tposAtCancel, _ = %s\n\t\t}\n\t}\n", pos)
	if g.Options.TokenStream {
		sb.WriteString("\tlx.Init(src, listener)\n")
	} else {
		sb.WriteString("\tlx.Init(src)\n")
	}
	sb.WriteString("\tif k == 0 {\n\t\tcancel()\n\t\tposAtCancel = 0\n\t}\n\tvar p Parser\n")
	sb.WriteString("\tnerr := 0\n")
	if g.Parser.IsRecovering {
		sb.WriteString("\tp.Init(func(se SyntaxError) bool { nerr++; return nerr < 1000000 }, listener)\n")
	} else {
		sb.WriteString("\tp.Init(listener)\n")
	}
	method := "Parse"
	for _, inp := range g.Parser.Inputs {
		if inp.Synthetic {
			continue
		}
		if g.Parser.HasMultipleUserInputs() {
			method += g.NontermID(inp.Nonterm)
		}
		break
	}
	fmt.Fprintf(&sb, "\terr := p.%s(ctx, &lx)\n\tposEnd, _ := %s\n", method, pos)
	sb.WriteString("\tstatus := \"ok\"\n\tif err != nil {\n\t\tstatus = \"other \" + err.Error()\n\t\tif se, ok := err.(SyntaxError); ok {\n\t\t\tstatus = fmt.Sprintf(\"err %d %d\", se.Offset, se.Endoffset)\n\t\t} else if errors.Is(err, context.Canceled) {\n\t\t\tstatus = \"ctx\"\n\t\t}\n\t}\n\treturn fmt.Sprintf(\"%d:%x|%s|%d|%d|%d\", n, h.Sum64(), status, posAtCancel, posEnd, nerr)\n}\n")
	return map[string]string{"verif_export.go": sb.String()}
}

func c29Check(c c29Case, res *batch.Result, run runFunc, r *ev.Recorder) *Failure {
	g := c.spec()
	root := g.NTs[len(g.NTs)-1]
	_ = root
	inner := c.G.Inputs[0].NT
	semi := g.T - 1
	desc := func() string { return c.render("g") }
	sawCtx, sawDone := false, false
	for variant := 0; variant < 3; variant++ {
		rnd := &lcg{uint64(c.Seed)*7 + uint64(variant)}
		target := []int{40, 3000, 6000}[variant]
		var toks []int
		for i := 0; len(toks) < target && i < 20000; i++ {
			_, part := c.G.derive(inner, c.Seed+i*31+variant, 2+i%7)
			toks = append(toks, part...)
			if len(c.Errs) > 0 && rnd.next(200) == 0 {
				toks = append(toks, 1+rnd.next(c.G.T-1)) // stray token: recovery
			}
			toks = append(toks, semi)
		}
		var sb strings.Builder
		for _, t := range toks {
			if c.Space && rnd.next(3) == 0 {
				sb.WriteByte(' ')
			}
			sb.WriteByte(byte('a' + t - 1))
		}
		src := sb.String()
		tokensIn := func(a, b int) int {
			if a < 0 {
				a = 0
			}
			if b > len(src) {
				b = len(src)
			}
			n := 0
			for i := a; i < b; i++ {
				if src[i] != ' ' {
					n++
				}
			}
			return n
		}
		base, pan, err := c19Run(run, 0, src, "-1")
		r.Eval(1)
		short := fmt.Sprintf("input of %d tokens (%d bytes, starts %q); grammar:\n%s", len(toks), len(src), src[:min(60, len(src))], desc())
		if err != nil || pan != "" {
			return failf("parser-panics-or-hangs", "%v %s on %s", err, oneLine(pan, 300), short)
		}
		bf := strings.Split(base, "|")
		if len(bf) != 5 {
			return failf("adapter-output", "bad adapter output %q", base)
		}
		// tokens skipped by error recovery are consumed but not shifted
		noRecovery := bf[4] == "0"
		nEvents, _ := strconv.Atoi(strings.SplitN(bf[0], ":", 2)[0])
		points := append([]int{0, 1}, c.Cancel...)
		for _, k0 := range points {
			k := k0
			if k > 1 && nEvents > 0 {
				k = 1 + (k0-1)%nEvents
			}
			out, pan, err := c19Run(run, 0, src, strconv.Itoa(k))
			r.Eval(1)
			if err != nil || pan != "" {
				return failf("parser-panics-or-hangs", "%v %s when cancelling at event %d on %s", err, oneLine(pan, 300), k, short)
			}
			f := strings.Split(out, "|")
			if len(f) != 5 {
				return failf("adapter-output", "bad adapter output %q", out)
			}
			at, _ := strconv.Atoi(f[2])
			end, _ := strconv.Atoi(f[3])
			if f[1] == "ctx" {
				sawCtx = true
				if n := tokensIn(at, end); noRecovery && n > c29Bound+2 {
					return failf("late-stop", "cancelled at event %d (lexer offset %d) the parser consumed %d more tokens before returning the context error (bound %d); %s", k, at, n, c29Bound, short)
				}
				continue
			}
			if f[0] != bf[0] || f[1] != bf[1] {
				return failf("wrong-parse", "cancelled at event %d the parse returns %q with events (count:hash) %s; uncancelled it returns %q with %s; %s", k, f[1], f[0], bf[1], bf[0], short)
			}
			sawDone = true
			if at >= 0 {
				if rest := tokensIn(at, end); noRecovery && rest > c29Bound+2 {
					return failf("cancellation-ignored", "cancelled at event %d (lexer offset %d) with %d tokens left, the parse ran to completion with status %q (bound %d); %s", k, at, rest, f[1], c29Bound, short)
				}
			}
		}
	}
	if sawCtx && sawDone {
		js, _ := json.Marshal(c)
		r.Nontrivial(string(js))
		r.Class("both-outcomes")
		if r.WantSample() {
			r.Sample(map[string]any{"grammar": desc(), "cancel_points": c.Cancel})
		}
	} else if sawCtx {
		r.Class("ctx-only")
	} else {
		r.Class("completed-only")
	}
	return nil
}

func TestC29(t *testing.T) {
	p := &batchProp[c29Case]{
		ID:        "C29",
		Rule:      "generated parsers: C02 grammars with cancellable=true (optionally cancellableFetch, tokenStream, optimizeTables, skipped space + fixWhitespace, a recovery alternative), input X wrapped into `Root: (X ';' -> Item)+`; three inputs per grammar of about 40, 3000 and 6000 tokens (concatenated derivations, occasional stray tokens when recovery is present); eight runs per input: cancelled before the parse, at the first event and at six generated event numbers; the adapter cancels from inside the listener and records the lexer offset at that moment and at return. Each run must return the context error or reproduce status, event count and event hash of the uncancelled run; after cancellation at most 2048 tokens may be consumed, and a run that completed must have had at most that many left. Non-trivial: a grammar for which both outcomes occurred.",
		Assume:    []string{"the bound tolerated is 4x the template's 512-shift polling interval"},
		Quick:     32, Thorough: 480, BatchSize: 32,
		Gen:       c29Gen,
		Unit: func(c c29Case, name string) (batch.Unit, bool) {
			return batch.Unit{Name: name, TM: c.render(name), Adapter: cancelAdapter}, true
		},
		Check: c29Check,
	}
	p.run(t)
}
