package props

import (
	"encoding/json"
	"fmt"
	"strings"
	"testing"
	"unicode/utf8"

	"github.com/inspirer/textmapper/grammar"
	"pgregory.net/rapid"

	"verif/harness/internal/batch"
	"verif/harness/internal/ev"
	"verif/harness/internal/respec"
)

// C11 — generated Go lexers tokenize exactly as the lexer rules specify.
// Oracle: the set-based matcher over the rule specs (NOT lex.Tables.Scan, so a table bug and a
// template bug cannot cancel) plus the documented post-processing: keyword specialisation of
// (class) rules, skipped space tokens, invalid tokens, EOI, byte offsets, line and column.

type c11Rule struct {
	RE      *respec.Node `json:"re,omitempty"`
	Keyword string       `json:"keyword,omitempty"` // constant rule specialised from the class rule
	Prec    int          `json:"prec,omitempty"`
	Token   string       `json:"token"`
	SCs     []int        `json:"scs"`
	Space   bool         `json:"space,omitempty"`
	Class   bool         `json:"class,omitempty"`
	Next    int          `json:"next"` // start condition to switch to, -1: none
}

type c11Case struct {
	Rules []c11Rule               `json:"rules"`
	Named map[string]*respec.Node `json:"named,omitempty"`
	NSC   int                     `json:"nsc"`
	Opts  map[string]string       `json:"opts"`
	Seed  int                     `json:"seed"`
	Extra []string                `json:"extra,omitempty"`
}

func (c *c11Case) bytes() bool { return c.Opts["scanBytes"] == "true" }
func (c *c11Case) fold() bool  { return c.Opts["caseInsensitive"] == "true" }

func c11Gen(t *rapid.T) c11Case {
	c := c11Case{Opts: map[string]string{}, Seed: rapid.IntRange(0, 1<<30).Draw(t, "seed")}
	for _, o := range []string{"tokenLine", "tokenColumn", "tokenLineOffset", "scanBytes", "nonBacktracking", "caseInsensitive", "skipByteOrderMark"} {
		switch rapid.IntRange(0, 3).Draw(t, "o_"+o) {
		case 0:
			c.Opts[o] = "true"
		case 1:
			c.Opts[o] = "false"
		}
	}
	if c.Opts["nonBacktracking"] == "true" && rapid.IntRange(0, 3).Draw(t, "keepNB") > 0 {
		delete(c.Opts, "nonBacktracking") // most rule sets need backtracking
	}
	if c.Opts["tokenLine"] == "false" {
		// columns and line offsets are maintained together with lines
		delete(c.Opts, "tokenColumn")
		delete(c.Opts, "tokenLineOffset")
	}
	if rapid.IntRange(0, 2).Draw(t, "patternless") == 0 {
		// terminals without a pattern in front of / between the rules: token numbers and rule
		// numbers then differ, which matters when the compiler inlines rule -> token
		c.Opts["patternless"] = "true"
	}
	small := rapid.IntRange(0, 3).Draw(t, "small") > 0
	if !small && !c.bytes() && rapid.IntRange(0, 5).Draw(t, "capped") == 0 {
		// all runes at or below a boundary of the generated rune map (2048: direct table vs
		// compressed map)
		reCapRune = []rune{0x7ff, 0x800, 0x801, 0xfff, 0x1000}[rapid.IntRange(0, 4).Draw(t, "cap")]
		defer func() { reCapRune = 0 }()
	}
	base, named, nsc := c09GenRules(t, c.bytes(), 5, small)
	if c.fold() {
		for i := range base {
			base[i].Fold = false
		}
	}
	c.Named, c.NSC = named, nsc
	for i, b := range base {
		r := c11Rule{RE: b.RE, Prec: b.Prec, SCs: b.SCs, Next: -1, Token: fmt.Sprintf("t%d", b.Action)}
		if b.Fold && !c.fold() {
			r.RE = &respec.Node{Op: "grp", Fold: 1, Sub: []*respec.Node{b.RE}}
		}
		if rapid.IntRange(0, 5).Draw(t, "space") == 0 {
			r.Space = true
			r.Token = fmt.Sprintf("sp%d", i)
		} else if i > 0 && rapid.IntRange(0, 11).Draw(t, "explicitInvalid") == 0 {
			// an explicit rule for invalid_token (its matches are reported as invalid tokens)
			r.Token = "invalid_token"
		}
		if nsc > 1 && rapid.IntRange(0, 3).Draw(t, "switch") == 0 {
			r.Next = rapid.IntRange(0, nsc-1).Draw(t, "next")
		}
		c.Rules = append(c.Rules, r)
	}
	// distinct priorities avoid "two rules are identical" rejections in half of the cases
	if rapid.Bool().Draw(t, "distinctPrio") {
		for i := range c.Rules {
			c.Rules[i].Prec = len(c.Rules) - i
		}
	}
	// only referenced named patterns may be declared
	used := map[rune]bool{}
	_ = used
	refd := map[string]bool{}
	var walkRefs func(n *respec.Node)
	walkRefs = func(n *respec.Node) {
		if n == nil {
			return
		}
		if n.Op == "ref" && !refd[n.Name] {
			refd[n.Name] = true
			walkRefs(c.Named[n.Name])
		}
		for _, s := range n.Sub {
			walkRefs(s)
		}
	}
	for _, r := range c.Rules {
		walkRefs(r.RE)
	}
	for name := range c.Named {
		if !refd[name] {
			delete(c.Named, name)
		}
	}
	// whitespace rule in most grammars
	if rapid.IntRange(0, 3).Draw(t, "ws") > 0 {
		all := make([]int, nsc)
		for i := range all {
			all[i] = i
		}
		ws := &respec.Node{Op: "rep", Min: 1, Max: -1, Sub: []*respec.Node{{Op: "class", Cls: &respec.Class{Items: []respec.Item{{K: "r", Lo: ' '}, {K: "r", Lo: '\n', Enc: "c"}, {K: "r", Lo: '\r', Enc: "c"}, {K: "r", Lo: '\t', Enc: "c"}}}}}}
		c.Rules = append(c.Rules, c11Rule{RE: ws, SCs: all, Space: true, Token: "ws", Next: -1, Prec: -5})
	}
	// a (class) rule with keywords
	if !c.fold() && rapid.IntRange(0, 2).Draw(t, "hasClass") > 0 {
		var cls *respec.Class
		alphabet := "ghijkq"
		switch rapid.IntRange(0, 2).Draw(t, "classKind") {
		case 0:
			cls = &respec.Class{Items: []respec.Item{{K: "rng", Lo: 'g', Hi: 'q'}}}
		case 1:
			cls = &respec.Class{Items: []respec.Item{{K: "rng", Lo: 'g', Hi: 'q'}, {K: "rng", Lo: 0xe0, Hi: 0xff}}}
			alphabet = "ghiq\u00e9\u00fc"
		default:
			if c.bytes() {
				cls = &respec.Class{Items: []respec.Item{{K: "rng", Lo: 'g', Hi: 'q'}, {K: "rng", Lo: 0x80, Hi: 0xff}}}
				alphabet = "ghq\u00e9\u4e2d"
			} else {
				cls = &respec.Class{Items: []respec.Item{{K: "rng", Lo: 'g', Hi: 'q'}, {K: "esc", Esc: "p{L}"}}}
				alphabet = "gq\u00e9\u0436\u4e2d"
			}
		}
		scs := []int{0}
		if nsc > 1 && rapid.Bool().Draw(t, "classEverywhere") {
			scs = nil
			for i := 0; i < nsc; i++ {
				scs = append(scs, i)
			}
		}
		c.Rules = append(c.Rules, c11Rule{RE: &respec.Node{Op: "rep", Min: 1, Max: -1, Sub: []*respec.Node{{Op: "class", Cls: cls}}}, SCs: scs, Class: true, Token: "word", Next: -1, Prec: -1})
		nk := rapid.IntRange(1, 12).Draw(t, "nkw")
		seen := map[string]bool{}
		runes := []rune(alphabet)
		for i := 0; i < nk; i++ {
			n := rapid.IntRange(1, 4).Draw(t, "kwlen")
			var sb strings.Builder
			for j := 0; j < n; j++ {
				sb.WriteRune(runes[rapid.IntRange(0, len(runes)-1).Draw(t, "kwch")])
			}
			kw := sb.String()
			if seen[kw] {
				continue
			}
			seen[kw] = true
			r := c11Rule{Keyword: kw, SCs: scs, Token: fmt.Sprintf("kw%d", i), Next: -1}
			if nsc > 1 && rapid.IntRange(0, 5).Draw(t, "kwSwitch") == 0 {
				r.Next = rapid.IntRange(0, nsc-1).Draw(t, "kwNext")
			}
			c.Rules = append(c.Rules, r)
		}
	}
	return c
}

func c11StateName(i int) string {
	if i == 0 {
		return "initial"
	}
	return fmt.Sprintf("s%d", i)
}

func (r *c11Rule) node() *respec.Node {
	if r.Keyword == "" {
		return r.RE
	}
	n := &respec.Node{Op: "cat"}
	for _, x := range r.Keyword {
		n.Sub = append(n.Sub, &respec.Node{Op: "lit", R: x})
	}
	return n
}

func (c *c11Case) render(name string) string {
	var sb strings.Builder
	fmt.Fprintf(&sb, "language %s(go);\n\npackage = \"scratch/%s\"\ngenParser = false\n", name, name)
	for _, k := range []string{"tokenLine", "tokenColumn", "tokenLineOffset", "scanBytes", "nonBacktracking", "caseInsensitive", "skipByteOrderMark"} {
		if v, ok := c.Opts[k]; ok {
			fmt.Fprintf(&sb, "%s = %s\n", k, v)
		}
	}
	sb.WriteString("\n:: lexer\n\n")
	if c.NSC > 1 {
		sb.WriteString("%s initial")
		for i := 1; i < c.NSC; i++ {
			sb.WriteString(", " + c11StateName(i))
		}
		sb.WriteString(";\n\n")
	}
	for name, n := range c.Named {
		fmt.Fprintf(&sb, "%s = /%s/\n", name, respec.Render(n))
	}
	if c.Opts["patternless"] == "true" {
		sb.WriteString("error:\n")
	}
	for ri, r := range c.Rules {
		if ri == 1 && c.Opts["patternless"] == "true" {
			sb.WriteString("reserved:\n")
		}
		if c.NSC > 1 {
			var names []string
			for _, s := range r.SCs {
				names = append(names, c11StateName(s))
			}
			fmt.Fprintf(&sb, "<%s> ", strings.Join(names, ", "))
		}
		fmt.Fprintf(&sb, "%s: /%s/", r.Token, respec.Render(r.node()))
		if r.Prec != 0 {
			fmt.Fprintf(&sb, " %d", r.Prec)
		}
		if r.Space {
			sb.WriteString(" (space)")
		}
		if r.Class {
			sb.WriteString(" (class)")
		}
		if r.Next >= 0 && c.NSC > 1 {
			fmt.Fprintf(&sb, " { l.State = State%s }", strings.Title(c11StateName(r.Next)))
		}
		sb.WriteString("\n")
	}
	return sb.String()
}

// lexerAdapter emits "tokIndex:start:end:line:col;" for every token until two EOIs.
func lexerAdapter(g *grammar.Grammar, files map[string]string) map[string]string {
	var sb strings.Builder
	fmt.Fprintf(&sb, "package %s\n\nimport (\n\t\"fmt\"\n\t\"strings\"\n)\n\n", g.Name)
	sb.WriteString("func VerifRun(entry int, src string, arg string) string {\n\tvar sb strings.Builder\n\tvar l Lexer\n\tl.Init(src)\n\teois := 0\n\tfor i := 0; i < 20000 && eois < 2; i++ {\n\t\ttok := l.Next()\n\t\ts, e := l.Pos()\n")
	line, col := "0", "0"
	if g.Options.TokenLine {
		line = "l.Line()"
	}
	if g.Options.TokenColumn {
		col = "l.Column()"
	}
	fmt.Fprintf(&sb, "\t\tfmt.Fprintf(&sb, \"%%d:%%d:%%d:%%d:%%d;\", int(tok), s, e, %s, %s)\n\t\tif int(tok) == 0 {\n\t\t\teois++\n\t\t}\n\t}\n\treturn sb.String()\n}\n", line, col)
	return map[string]string{"verif_export.go": sb.String()}
}

type c11Tok struct {
	name             string
	start, end       int
	line, col        int
}

// c11Expect tokenizes src according to the rule specs.
func c11Expect(c *c11Case, src string) (toks []c11Tok, usedKeyword, usedBacktrack, bigRune, ok bool) {
	bytes, fold := c.bytes(), c.fold()
	pos := 0
	if c.Opts["skipByteOrderMark"] != "false" && strings.HasPrefix(src, "\xef\xbb\xbf") {
		pos = 3
	}
	state := 0
	// A constant rule is specialised from the (class) rule only when the class rule matches its
	// whole text (in byte mode: its UTF-8 bytes); otherwise it stays an ordinary rule.
	keywords := map[string]*c11Rule{}
	var classRE *respec.Node
	var classSCs []int
	for i := range c.Rules {
		if c.Rules[i].Class {
			classRE = c.Rules[i].RE
			classSCs = c.Rules[i].SCs
		}
	}
	specialised := map[int]bool{} // rules moved under the class rule (not part of the DFA)
	for i := range c.Rules {
		kw := c.Rules[i].Keyword
		if classRE == nil || c.Rules[i].Class {
			continue
		}
		if kw == "" {
			// Any rule that matches exactly one string by construction is specialised as well,
			// whatever its priority (compiler/lexer.go:resolveClasses).
			v, isConst := respec.Constant(c.Rules[i].node(), respec.Env{Bytes: bytes, Fold: fold, RefFold: fold, Refs: c.Named})
			if !isConst || v == "" {
				continue
			}
			kw = v
		}
		// the class rule must be active in one of the rule's start conditions
		shared := false
		for _, s := range c.Rules[i].SCs {
			for _, cs := range classSCs {
				shared = shared || s == cs
			}
		}
		if !shared {
			continue
		}
		lens, _ := respec.MatchLens(classRE, respec.Env{Bytes: bytes, Refs: c.Named}, kw)
		if len(lens) > 0 && lens[len(lens)-1] == len(kw) {
			if first, dup := keywords[kw]; !dup {
				keywords[kw] = &c.Rules[i]
			} else if first.Token != c.Rules[i].Token || first.Space != c.Rules[i].Space || first.Next != c.Rules[i].Next {
				// two different rules for the same keyword text: which one the class yields is not
				// defined (rule priorities do not take part in keyword lookup) — outside the domain
				return nil, false, false, false, false
			}
			specialised[i] = true
		}
	}
	lineOf := func(p int) (int, int) {
		line := 1 + strings.Count(src[:p], "\n")
		col := p - (strings.LastIndexByte(src[:p], '\n') + 1) + 1
		return line, col
	}
	ok = true
	for steps := 0; steps < 5000; steps++ {
		if pos >= len(src) {
			l, cl := lineOf(len(src))
			toks = append(toks, c11Tok{"eoi", len(src), len(src), l, cl})
			if len(toks) >= 2 && toks[len(toks)-2].name == "eoi" {
				return
			}
			continue
		}
		rest := src[pos:]
		var nodes []*respec.Node
		var envs []respec.Env
		best, bestPrec := 0, 0
		var bestRule *c11Rule
		tie := false
		for i := range c.Rules {
			r := &c.Rules[i]
			if specialised[i] {
				continue
			}
			active := false
			for _, s := range r.SCs {
				if s == state {
					active = true
				}
			}
			if !active {
				continue
			}
			env := respec.Env{Bytes: bytes, Fold: fold, RefFold: fold, Refs: c.Named}
			nodes = append(nodes, r.node())
			envs = append(envs, env)
			lens, _ := respec.MatchLens(r.node(), env, rest)
			l := 0
			for _, x := range lens {
				if x > l {
					l = x
				}
			}
			if l == 0 {
				continue
			}
			switch {
			case l > best || (l == best && r.Prec > bestPrec):
				best, bestPrec, bestRule, tie = l, r.Prec, r, false
			case l == best && r.Prec == bestPrec && (r.Token != bestRule.Token || r.Next != bestRule.Next || r.Space != bestRule.Space):
				tie = true
			}
		}
		if tie {
			return toks, usedKeyword, usedBacktrack, bigRune, false
		}
		line, col := lineOf(pos)
		if bestRule == nil {
			n := respec.ViablePrefix(nodes, envs, rest, bytes)
			if n == 0 {
				// forced progress: one rune / byte
				n = 1
				if !bytes {
					_, n = utf8.DecodeRuneInString(rest)
				}
			}
			toks = append(toks, c11Tok{"invalid_token", pos, pos + n, line, col})
			pos += n
			continue
		}
		if v := respec.ViablePrefix(nodes, envs, rest, bytes); v > best {
			usedBacktrack = true
		}
		rule := bestRule
		text := rest[:best]
		if bestRule.Class {
			if kw, found := keywords[text]; found {
				rule = kw
				usedKeyword = true
			}
		}
		for _, x := range text {
			if x > 0x7ff {
				bigRune = true
			}
		}
		if !rule.Space {
			toks = append(toks, c11Tok{rule.Token, pos, pos + best, line, col})
		}
		pos += best
		if rule.Next >= 0 && c.NSC > 1 {
			state = rule.Next
		}
	}
	return toks, usedKeyword, usedBacktrack, bigRune, false
}

// reFoldSensitive reports whether the expression uses an escape whose meaning under case folding
// is not documented (negated escapes, \w, properties other than categories/scripts/Any); the
// regular-expression generator avoids them in (?i) contexts, the global caseInsensitive option
// needs the same exclusion.
func reFoldSensitive(n *respec.Node, named map[string]*respec.Node, depth int) bool {
	if n == nil || depth > 20 {
		return false
	}
	bad := func(esc string) bool {
		if esc == "d" || esc == "s" {
			return false
		}
		if strings.HasPrefix(esc, "p{") && !strings.HasPrefix(esc, "p{^") {
			name := strings.TrimSuffix(strings.TrimPrefix(esc, "p{"), "}")
			for _, ok := range append(append([]string{"Any"}, reCategories...), reScripts...) {
				if name == ok {
					return false
				}
			}
		}
		return true
	}
	switch n.Op {
	case "esc":
		return bad(n.Name)
	case "ref":
		return reFoldSensitive(named[n.Name], named, depth+1)
	case "class":
		var cls func(c *respec.Class) bool
		cls = func(c *respec.Class) bool {
			if c == nil {
				return false
			}
			for _, it := range c.Items {
				if it.K == "esc" && bad(it.Esc) {
					return true
				}
			}
			for _, m := range c.Minus {
				if cls(m) {
					return true
				}
			}
			return false
		}
		return cls(n.Cls)
	}
	for _, s := range n.Sub {
		if reFoldSensitive(s, named, depth+1) {
			return true
		}
	}
	return false
}

func c11Unit(c c11Case, name string) (batch.Unit, bool) {
	if len(c.Rules) == 0 || c.NSC < 1 {
		return batch.Unit{}, false
	}
	if c.fold() {
		for i := range c.Rules {
			if c.Rules[i].RE != nil && reFoldSensitive(c.Rules[i].RE, c.Named, 0) {
				return batch.Unit{}, false
			}
		}
	}
	for _, r := range c.Rules {
		if r.Keyword == "" && (r.RE == nil || reMinLen(r.RE, c.Named, 0) == 0) {
			return batch.Unit{}, false
		}
	}
	return batch.Unit{Name: name, TM: c.render(name), Adapter: lexerAdapter}, true
}

func (c *c11Case) inputs() []string {
	cc := c09Case{Named: c.Named, Bytes: c.bytes(), NSC: c.NSC, Seed: c.Seed}
	for _, r := range c.Rules {
		cc.Rules = append(cc.Rules, c09Rule{RE: r.node()})
	}
	in := cc.inputs(36)
	var kws []string
	for _, r := range c.Rules {
		if r.Keyword != "" {
			kws = append(kws, r.Keyword)
		}
	}
	rnd := &lcg{uint64(c.Seed) + 5}
	var out []string
	for i, s := range in {
		switch i % 6 {
		case 1:
			s = strings.ReplaceAll(s, "a", "a\n")
		case 2:
			s = "\xef\xbb\xbf" + s
		case 3:
			s = s + " \r\n" + s
		case 4:
			if len(kws) > 0 {
				s = kws[rnd.next(len(kws))] + " " + s + " " + kws[rnd.next(len(kws))] + "g\n" + kws[rnd.next(len(kws))]
			}
		case 5:
			// the other case of every letter (matters under caseInsensitive / (?i) groups)
			if up := strings.ToUpper(s); up != s {
				s = up
			} else {
				s = strings.ToLower(s)
			}
		}
		out = append(out, s)
	}
	return append(out, c.Extra...)
}

func c11Check(c c11Case, res *batch.Result, run runFunc, r *ev.Recorder) *Failure {
	g := res.Grammar
	desc := c.render("g")
	anyKw, anyBt, anyBig := false, false, false
	for _, in := range c.inputs() {
		want, kw, bt, big, ok := c11Expect(&c, in)
		if !ok {
			r.Excluded("priority-tie-or-too-long")
			continue
		}
		out, pan, err := run(0, in, "")
		r.Eval(1)
		if err != nil {
			return failf("generated-lexer-hangs-or-dies", "%v on input %q; grammar:\n%s", err, in, desc)
		}
		if pan != "" {
			return failf("generated-lexer-panics", "panic %s on input %q; grammar:\n%s", oneLine(pan, 300), in, desc)
		}
		var got []c11Tok
		for _, f := range strings.Split(strings.TrimSuffix(out, ";"), ";") {
			var ti, s, e, l, cl int
			if n, _ := fmt.Sscanf(f, "%d:%d:%d:%d:%d", &ti, &s, &e, &l, &cl); n != 5 {
				return failf("adapter-output", "bad adapter output %q", f)
			}
			name := "?"
			if ti >= 0 && ti < len(g.Syms) {
				name = g.Syms[ti].Name
			}
			got = append(got, c11Tok{name, s, e, l, cl})
		}
		show := func(ts []c11Tok) string {
			var sb strings.Builder
			for _, x := range ts {
				fmt.Fprintf(&sb, "%s[%d,%d)@%d:%d ", x.name, x.start, x.end, x.line, x.col)
			}
			return sb.String()
		}
		if len(got) != len(want) {
			return failf("token-count", "input %q: generated lexer returns %d tokens, the rules define %d\n got: %s\nwant: %s\ngrammar:\n%s", in, len(got), len(want), show(got), show(want), desc)
		}
		for i := range want {
			w, gt := want[i], got[i]
			if w.name != gt.name || w.start != gt.start || w.end != gt.end {
				return failf("token-differs", "input %q, token #%d: generated lexer returns %s[%d,%d), the rules define %s[%d,%d)\n got: %s\nwant: %s\ngrammar:\n%s", in, i, gt.name, gt.start, gt.end, w.name, w.start, w.end, show(got), show(want), desc)
			}
			if g.Options.TokenLine && w.line != gt.line {
				return failf("token-line", "input %q, token #%d %s at byte %d: Line() = %d, the token starts on line %d\ngrammar:\n%s", in, i, w.name, w.start, gt.line, w.line, desc)
			}
			if g.Options.TokenColumn && w.col != gt.col {
				return failf("token-column", "input %q, token #%d %s at byte %d: Column() = %d, the token starts at column %d (1-based, bytes)\ngrammar:\n%s", in, i, w.name, w.start, gt.col, w.col, desc)
			}
		}
		anyKw, anyBt, anyBig = anyKw || kw, anyBt || bt, anyBig || big
	}
	if anyKw {
		r.Class("keyword-hit")
	}
	if anyBt {
		r.Class("backtrack-restore")
	}
	if anyBig {
		r.Class("rune>0x7ff")
	}
	if g.Lexer.Tables.LastMapEntry().Start > 2048 {
		r.Class("compressed-rune-map")
	}
	if len(g.Lexer.RuleToken) > 0 {
		r.Class("rule-token-indirection")
	}
	if anyKw || anyBt || anyBig {
		js, _ := json.Marshal(c.Rules)
		r.Nontrivial(string(js) + fmt.Sprint(c.Opts))
		if r.WantSample() {
			r.Sample(map[string]any{"grammar": desc})
		}
	}
	return nil
}

func TestC11(t *testing.T) {
	p := &batchProp[c11Case]{
		ID:        "C11",
		Rule:      "lexer-only grammars (genParser = false) rendered from rule specs: 1..5 regex rules (C09 generator: literals, classes, repetition, alternation, named patterns, (?i)), priorities, 1..3 start conditions switched by rule actions { l.State = StateX }, several rules per token, (space) rules, a whitespace rule, and in 2/3 of the case-sensitive grammars a (class) rule [g-q...]+ (ASCII, Latin-1, or \\p{L}/bytes>=0x80 so that the symbol map exceeds 2048 and the compressed rune map is generated) with 1..12 keyword rules incl. non-ASCII keywords; options tokenLine/tokenColumn/tokenLineOffset/scanBytes/nonBacktracking/caseInsensitive/skipByteOrderMark each default/true/false. The generated lexer is built and run on ~40 inputs (rule alphabets, keywords next to identifiers, BOM prefix, CR/LF, newlines inside input, invalid UTF-8); every (token, start, end, line, column) up to two EOIs must equal the reference tokenization computed with the set-based regex matcher + keyword substitution + space skipping + invalid-token rule. Non-trivial: an input with a keyword hit, a fallback past an accepted prefix, or a rune > 0x7ff; distinct by (rules, options).",
		Assume:    []string{"inputs on which two rules of equal priority tie are outside the domain", "{eoi} patterns and explicit invalid_token/eoi rules are not generated"},
		Quick:     192, Thorough: 2400, BatchSize: 80,
		Gen:       c11Gen,
		Unit:      c11Unit,
		Check:     c11Check,
	}
	p.run(t)
}
