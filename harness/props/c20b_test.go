package props

import (
	"encoding/json"
	"fmt"
	"strconv"
	"strings"
	"testing"

	"pgregory.net/rapid"

	"github.com/inspirer/textmapper/grammar"
	"verif/harness/internal/batch"
	"verif/harness/internal/ev"
)

// C20 for generated parsers: events of generated event-based parsers (valid and invalid inputs,
// with recovery, injected comment / invalid tokens, with and without tokenStream) and the tree
// builder of the generated ast package, which is additionally fed arbitrary well-nested event
// streams directly.

type c20bCase struct {
	G        egSpec   `json:"g"`
	Errs     []c19Err `json:"errs,omitempty"`
	Space    bool     `json:"space"`
	Comments bool     `json:"comments"`
	Invalid  bool     `json:"invalid"` // %inject invalid_token
	Opt      bool     `json:"optimize"`
	FileNode bool     `json:"filenode"`
	Stream   bool     `json:"stream"`
	Seed     int      `json:"seed"`
}

func c20bGen(t *rapid.T) c20bCase {
	c := c20bCase{
		G:        genEG(t, egGenOpts{MaxNT: 4, Terms: 6, NodePct: 65, Lists: true, MaxDepth: 2, NestedNode: true}),
		Space:    rapid.IntRange(0, 3).Draw(t, "space") > 0,
		Opt:      rapid.Bool().Draw(t, "optimize"),
		FileNode: rapid.Bool().Draw(t, "filenode"),
		Stream:   rapid.Bool().Draw(t, "stream"),
		Seed:     rapid.IntRange(0, 1<<30).Draw(t, "seed"),
	}
	if c.Space {
		c.Comments = rapid.Bool().Draw(t, "comments")
		c.Invalid = rapid.Bool().Draw(t, "invalid")
	}
	if rapid.IntRange(0, 2).Draw(t, "cmdNullable") == 0 {
		egAddCmdNullable(t, &c.G)
		c.Comments = c.Space
	}
	if rapid.Bool().Draw(t, "marks") {
		egAddMarks(t, &c.G)
		// a marker behind a nullable last part matters where a node's end is trimmed back over
		// skipped tokens: keep injected comments on whenever there is a space token
		c.Comments = c.Space
	}
	if rapid.IntRange(0, 2).Draw(t, "recovery") > 0 {
		n := rapid.IntRange(1, 2).Draw(t, "nerr")
		for i := 0; i < n; i++ {
			e := c19Err{NT: rapid.IntRange(0, len(c.G.NTs)-1).Draw(t, "ent")}
			if rapid.IntRange(0, 2).Draw(t, "follow") > 0 {
				e.Follow = rapid.IntRange(1, c.G.T-1).Draw(t, "fterm")
			}
			if rapid.Bool().Draw(t, "enode") {
				e.Node = "Bad"
			}
			c.Errs = append(c.Errs, e)
		}
	}
	return c
}

// spec returns the grammar actually rendered: with fileNode the first input is wrapped into
// `Root -> File: X ;`.
func (c *c20bCase) spec() *egSpec {
	g := c.G
	if c.FileNode {
		g.NTs = append(append([]*egNT(nil), g.NTs...), &egNT{Name: "Root", Node: "File", Alts: []*egAlt{{Parts: []*egPart{{K: "n", Sym: c.G.Inputs[0].NT}}}}})
		g.Inputs = []egInput{{NT: len(g.NTs) - 1, Eoi: true}}
	} else {
		g.Inputs = []egInput{{NT: c.G.Inputs[0].NT, Eoi: true}}
	}
	return &g
}

func (c *c20bCase) render(name string) string {
	g := c.spec()
	opts := map[string]string{"eventBased": "true", "eventFields": "true", "eventAST": "true", "optimizeTables": fmt.Sprint(c.Opt)}
	if c.Space {
		opts["fixWhitespace"] = "true"
	}
	if c.FileNode {
		opts["fileNode"] = `"File"`
	}
	if c.Stream {
		opts["tokenStream"] = "true"
	}
	lexer, pre := "", ""
	if len(c.Errs) > 0 || c.Invalid {
		lexer = "error:\ninvalid_token:\n"
	}
	if c.Comments {
		lexer += "comment: /#[^\\n]*/ (space)\n"
		pre += "%inject comment -> Comment;\n"
	}
	if c.Invalid {
		pre += "%inject invalid_token -> InvalidToken;\n"
	}
	opts["__lexer"] = lexer
	suffix := func(nt, alt int) string {
		if nt >= len(c.G.NTs) || alt != len(c.G.NTs[nt].Alts)-1 {
			return ""
		}
		var sb strings.Builder
		for _, e := range c.Errs {
			if e.NT != nt {
				continue
			}
			sb.WriteString("\n  | error")
			if e.Follow != 0 {
				sb.WriteString(" " + egTerm(e.Follow))
			}
			if e.Node != "" {
				sb.WriteString(" -> " + e.Node)
			}
		}
		return sb.String()
	}
	return g.render(name, opts, c.Space, pre, suffix)
}

// astAdapter adds ast/verif_export.go (package ast). VerifRun:
//
//	arg "events": src is "<len>;<type>:<off>:<end>,..." fed to the builder directly; returns
//	              "<tree>|ok" or "|builderr <msg>"
//	otherwise:    parses src with a listener that records events and feeds the builder; returns
//	              "<events>|<tree or !msg>|<ok | err off end>|<same|diff|-> (generated Parse agrees)"
//
// events are "type:off:end," and tree nodes "type:off:end:depth," (pre-order), types numeric.
func astAdapter(g *grammar.Grammar, files map[string]string) map[string]string {
	var sb strings.Builder
	pkg := g.Options.Package
	fmt.Fprintf(&sb, "package ast\n\nimport (\n\t\"fmt\"\n\t\"strconv\"\n\t\"strings\"\n\n\tvpp %q\n)\n\n", pkg)
	sb.WriteString(`var _ = strconv.Itoa

func verifDump(sb *strings.Builder, n *Node, d int) {
	any := func(vpp.NodeType) bool { return true }
	fmt.Fprintf(sb, "%d:%d:%d:%d,", int(n.Type()), n.Offset(), n.Endoffset(), d)
	for c := n.Child(any); c.IsValid(); c = c.Next(any) {
		if c.parent != n {
			fmt.Fprintf(sb, "BADPARENT,")
		}
		verifDump(sb, c, d+1)
	}
}

func VerifRun(entry int, src string, arg string) string {
	var out strings.Builder
	if arg == "events" {
		i := strings.IndexByte(src, ';')
		n, _ := strconv.Atoi(src[:i])
		b := newBuilder("x", strings.Repeat(" ", n))
		for _, e := range strings.Split(src[i+1:], ",") {
			if e == "" {
				continue
			}
			var t, o, en int
			fmt.Sscanf(e, "%d:%d:%d", &t, &o, &en)
			b.addNode(vpp.NodeType(t), o, en)
		}
		tree, err := b.build()
		if err != nil {
			return "|builderr " + err.Error()
		}
		verifDump(&out, tree.Root(), 0)
		return out.String() + "|ok"
	}
	b := newBuilder("x", src)
	l := func(t vpp.NodeType, off, end int) {
		fmt.Fprintf(&out, "%d:%d:%d,", int(t), off, end)
		b.addNode(t, off, end)
	}
`)
	if g.Options.TokenStream {
		sb.WriteString("\tvar lx vpp.TokenStream\n\tlx.Init(src, l)\n")
	} else {
		sb.WriteString("\tvar lx vpp.Lexer\n\tlx.Init(src)\n")
	}
	sb.WriteString("\tvar p vpp.Parser\n")
	eh := ""
	if g.Parser.IsRecovering {
		sb.WriteString("\tnerr := 0\n\teh := func(se vpp.SyntaxError) bool { nerr++; return nerr < 50 }\n\tp.Init(eh, l)\n")
		eh = ", func(se vpp.SyntaxError) bool { return true }"
	} else {
		sb.WriteString("\tp.Init(l)\n")
	}
	method := "Parse"
	for _, inp := range g.Parser.Inputs {
		if inp.Synthetic {
			continue
		}
		if g.Parser.HasMultipleUserInputs() {
			method += g.NontermID(inp.Nonterm)
		}
		break
	}
	fmt.Fprintf(&sb, "\terr := p.%s(&lx)\n", method)
	fmt.Fprintf(&sb, `	out.WriteString("|")
	status := "ok"
	var tree1 *Tree
	if err != nil {
		status = "other " + err.Error()
		if se, ok := err.(vpp.SyntaxError); ok {
			status = fmt.Sprintf("err %%d %%d", se.Offset, se.Endoffset)
		}
		out.WriteString("!noparse")
	} else if tree, berr := b.build(); berr != nil {
		out.WriteString("!" + berr.Error())
	} else {
		tree1 = tree
		verifDump(&out, tree.Root(), 0)
	}
	same := "same"
	tree2, err2 := Parse("x", src%s)
	if (err2 == nil) != (tree1 != nil) {
		same = "diff-status"
	} else if err2 == nil {
		var d1, d2 strings.Builder
		verifDump(&d1, tree1.Root(), 0)
		verifDump(&d2, tree2.Root(), 0)
		if d1.String() != d2.String() {
			same = "diff"
		}
	}
	return out.String() + "|" + status + "|" + same
}
`, eh)
	return map[string]string{"ast/verif_export.go": sb.String()}
}

func parseEventList(s string) ([]spEvent, bool) {
	var out []spEvent
	for _, e := range strings.Split(s, ",") {
		if e == "" {
			continue
		}
		f := strings.Split(e, ":")
		if len(f) != 3 {
			return nil, false
		}
		o, err1 := strconv.Atoi(f[1])
		en, err2 := strconv.Atoi(f[2])
		if err1 != nil || err2 != nil {
			return nil, false
		}
		out = append(out, spEvent{f[0], o, en})
	}
	return out, true
}

func parseTreeDump(s string) ([]spTreeNode, bool) {
	var out []spTreeNode
	for _, e := range strings.Split(s, ",") {
		if e == "" {
			continue
		}
		f := strings.Split(e, ":")
		if len(f) != 4 {
			return nil, false
		}
		o, err1 := strconv.Atoi(f[1])
		en, err2 := strconv.Atoi(f[2])
		d, err3 := strconv.Atoi(f[3])
		if err1 != nil || err2 != nil || err3 != nil {
			return nil, false
		}
		out = append(out, spTreeNode{f[0], o, en, d})
	}
	return out, true
}

// c20bSource renders tokens with generated separators (whitespace, comments).
func c20bSource(toks []int, c *c20bCase, rnd *lcg) string {
	var sb strings.Builder
	sep := func() {
		if !c.Space {
			return
		}
		switch rnd.next(8) {
		case 0:
			sb.WriteByte(' ')
		case 1:
			sb.WriteString("\n  ")
		case 2:
			if c.Comments {
				sb.WriteString(" #c\n")
			}
		case 3:
			if c.Comments {
				sb.WriteString("#x\n#y\n ")
			}
		}
	}
	for _, t := range toks {
		sep()
		if t < 0 {
			sb.WriteByte('?') // no lexer rule: invalid token
		} else {
			sb.WriteByte(byte('a' + t - 1))
		}
	}
	sep()
	return sb.String()
}

type evNode struct {
	t, off, end int
	kids       []*evNode
	emitted    bool
}

func genEvForest(rnd *lcg, lo, hi, depth int, all *[]*evNode) []*evNode {
	n := rnd.next(4)
	if depth == 0 {
		n = 1 + rnd.next(4)
	}
	pts := make([]int, 2*n)
	for i := range pts {
		pts[i] = lo + rnd.next(hi-lo+1)
	}
	for i := range pts { // insertion sort
		for j := i; j > 0 && pts[j-1] > pts[j]; j-- {
			pts[j-1], pts[j] = pts[j], pts[j-1]
		}
	}
	var out []*evNode
	for i := 0; i < n; i++ {
		nd := &evNode{t: 1 + rnd.next(3), off: pts[2*i], end: pts[2*i+1]}
		if i > 0 && nd.off == nd.end && out[len(out)-1].off == nd.off && out[len(out)-1].end == nd.end {
			continue // identical empty siblings: order unobservable
		}
		if nd.end > nd.off && depth < 3 {
			nd.kids = genEvForest(rnd, nd.off, nd.end, depth+1, all)
		}
		out = append(out, nd)
		*all = append(*all, nd)
	}
	return out
}

func c20bCheck(c c20bCase, res *batch.Result, run runFunc, r *ev.Recorder) *Failure {
	g := c.spec()
	desc := func() string { return c.render("g") }
	deep := false
	checkOut := func(out, src, kind string) *Failure {
		f := strings.Split(out, "|")
		if len(f) != 4 {
			return failf("adapter-output", "bad adapter output %q", out)
		}
		where := fmt.Sprintf("%s input %q; grammar:\n%s", kind, src, desc())
		evs, ok := parseEventList(f[0])
		if !ok {
			return failf("adapter-output", "bad event list %q", f[0])
		}
		if msg := checkEventNesting(evs, len(src)); msg != "" {
			k := strings.SplitN(msg, "|", 2)
			return failf(k[0], "%s (events %s); %s", k[1], f[0], where)
		}
		if f[3] == "diff" || f[3] == "diff-status" {
			return failf("generated-parse-differs", "ast.Parse and a builder fed through a recording listener disagree (%s); %s", f[3], where)
		}
		switch {
		case f[1] == "!noparse":
			r.Class(kind + ":rejected")
		case strings.HasPrefix(f[1], "!"):
			if c.FileNode {
				return failf("builder-error-with-filenode", "builder fails with %q; %s", f[1], where)
			}
			r.Class(kind + ":builder-error(" + f[1][1:] + ")")
		default:
			tree, ok := parseTreeDump(f[1])
			if !ok {
				return failf("tree-bad-links", "tree dump is inconsistent: %q; %s", f[1], where)
			}
			if msg := checkTree(tree, evs, c.FileNode); msg != "" {
				k := strings.SplitN(msg, "|", 2)
				return failf("tree-"+k[0], "%s (events %s, tree %s); %s", k[1], f[0], f[1], where)
			}
			for _, n := range tree {
				if n.Depth >= 2 {
					deep = true
				}
			}
			r.Class(kind + ":tree-checked")
		}
		return nil
	}
	inp := g.Inputs[0]
	for s := 0; s < 30; s++ {
		_, toks := g.derive(inp.NT, c.Seed+s*17, 3+s%8)
		if len(toks) > 40 {
			continue
		}
		rnd := &lcg{uint64(c.Seed + s)}
		src := c20bSource(toks, &c, rnd)
		out, pan, err := c19Run(run, 0, src, "")
		r.Eval(1)
		if err != nil || pan != "" {
			return failf("parser-panics-or-hangs", "%v %s on sentence %q; grammar:\n%s", err, oneLine(pan, 300), src, desc())
		}
		if f := checkOut(out, src, "sentence"); f != nil {
			return f
		}
		for m := 0; m < 2; m++ {
			bad := append([]int(nil), toks...)
			switch rnd.next(5) {
			case 0:
				if len(bad) > 0 {
					p := rnd.next(len(bad))
					bad = append(bad[:p:p], bad[p+1:]...)
				}
			case 1:
				p := rnd.next(len(bad) + 1)
				bad = append(bad[:p:p], append([]int{1 + rnd.next(g.T-1)}, bad[p:]...)...)
			case 2:
				if len(bad) > 0 {
					bad[rnd.next(len(bad))] = 1 + rnd.next(g.T-1)
				}
			case 3:
				p := rnd.next(len(bad) + 1)
				bad = append(bad[:p:p], append([]int{-1}, bad[p:]...)...)
			case 4:
				for i := 0; i < 1+rnd.next(3); i++ {
					bad = append(bad, 1+rnd.next(g.T-1))
				}
			}
			bsrc := c20bSource(bad, &c, rnd)
			bout, bpan, berr := c19Run(run, 0, bsrc, "")
			r.Eval(1)
			if berr != nil || bpan != "" {
				return failf("parser-panics-or-hangs", "%v %s on input %q; grammar:\n%s", berr, oneLine(bpan, 300), bsrc, desc())
			}
			if f := checkOut(bout, bsrc, "mutated"); f != nil {
				return f
			}
		}
	}
	// arbitrary well-nested event streams fed to the builder
	for s := 0; s < 40; s++ {
		rnd := &lcg{uint64(c.Seed)*31 + uint64(s)}
		n := 1 + rnd.next(24)
		var all []*evNode
		roots := genEvForest(rnd, 0, n, 0, &all)
		if !c.FileNode {
			// exactly one root is required: wrap
			root := &evNode{t: 1, off: 0, end: n, kids: roots}
			all = append(all, root)
		}
		var order []*evNode
		postorder := rnd.next(2) == 0
		if postorder {
			var walk func(ns []*evNode)
			walk = func(ns []*evNode) {
				for _, x := range ns {
					walk(x.kids)
					order = append(order, x)
				}
			}
			if c.FileNode {
				walk(roots)
			} else {
				walk([]*evNode{all[len(all)-1]})
			}
		} else {
			for len(order) < len(all) {
				var ready []*evNode
				for _, x := range all {
					if x.emitted {
						continue
					}
					ok := true
					for _, k := range x.kids {
						ok = ok && k.emitted
					}
					if ok {
						ready = append(ready, x)
					}
				}
				x := ready[rnd.next(len(ready))]
				x.emitted = true
				order = append(order, x)
			}
		}
		var sb strings.Builder
		fmt.Fprintf(&sb, "%d;", n)
		var evs []spEvent
		for _, x := range order {
			fmt.Fprintf(&sb, "%d:%d:%d,", x.t, x.off, x.end)
			evs = append(evs, spEvent{strconv.Itoa(x.t), x.off, x.end})
		}
		if msg := checkEventNesting(evs, n); msg != "" {
			continue // the generator produced a stream outside the property's domain (boundary cases)
		}
		out, pan, err := c19Run(run, 0, sb.String(), "events")
		r.Eval(1)
		if err != nil || pan != "" {
			return failf("builder-panics", "%v %s on event stream %s", err, oneLine(pan, 300), sb.String())
		}
		f := strings.Split(out, "|")
		if len(f) != 2 || f[1] != "ok" {
			if len(f) == 2 && !c.FileNode && strings.HasPrefix(f[1], "builderr") {
				r.Class("stream:builder-error")
				continue
			}
			return failf("builder-rejects-stream", "builder answers %q on the well-nested event stream %s (fileNode=%v)", out, sb.String(), c.FileNode)
		}
		tree, ok := parseTreeDump(f[0])
		if !ok {
			return failf("tree-bad-links", "tree dump is inconsistent: %q for event stream %s", f[0], sb.String())
		}
		if msg := checkTree(tree, evs, c.FileNode); msg != "" {
			k := strings.SplitN(msg, "|", 2)
			return failf("stream-tree-"+k[0], "%s; event stream %s (fileNode=%v, %s order) gives tree %s", k[1], sb.String(), c.FileNode, map[bool]string{true: "post", false: "arbitrary child-before-parent"}[postorder], f[0])
		}
		r.Class("stream:tree-checked")
	}
	if deep {
		js, _ := json.Marshal(c)
		r.Nontrivial(string(js))
		if r.WantSample() {
			r.Sample(map[string]any{"grammar": desc()})
		}
	}
	return nil
}

func TestC20B(t *testing.T) {
	p := &batchProp[c20bCase]{
		ID:        "C20",
		Rule:      "generated parsers: C02 grammars with eventBased+eventFields+eventAST, optional fileNode (input wrapped in `Root -> File`), tokenStream on/off, optimizeTables on/off; with a skipped space token fixWhitespace is on and optionally an injected comment token and an injected invalid_token; optional recovery alternatives; in half of the grammars a third of the alternatives carry a state marker, mostly at the end of the rule; in a third, nonterminals that end a rule get an action-only alternative. 30 sentences with generated separators/comments and 2 mutated variants each (token deleted/inserted/replaced, unmatched character, trailing tokens) are parsed through a listener that records events and feeds the generated builder; the events are checked as for the shipped parsers, the tree with the same validity predicate, and the generated ast.Parse must give the same tree. In addition 40 random well-nested event streams per grammar (forest of depth <= 4 over <= 24 positions, with empty nodes and shared boundaries; post-order or an arbitrary child-before-parent order) are fed to the builder directly. Non-trivial: a grammar for which a tree of depth >= 2 was checked.",
		Assume:    []string{"without fileNode the builder documents 'exactly one root node is expected'; that error is counted, not reported"},
		Quick:     64, Thorough: 640, BatchSize: 32,
		Gen:       c20bGen,
		Unit: func(c c20bCase, name string) (batch.Unit, bool) {
			return batch.Unit{Name: name, TM: c.render(name), Adapter: astAdapter, RunPkg: "ast"}, true
		},
		Check: c20bCheck,
	}
	p.run(t)
}
