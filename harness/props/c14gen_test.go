package props

import (
	"fmt"

	"pgregory.net/rapid"
)

// c14Gen2 draws templated grammars that satisfy the static rules of the template language by
// construction (every parameter of a referenced nonterminal gets a value, references by name
// exist in the caller, lookahead flags are supplied to the nonterminals that test them), so that
// most cases reach instantiation. It supersedes c14Gen; c14Gen2 adds set parts to it.
func c14GenBase(t *rapid.T) c14Case {
	c := c14Case{T: rapid.IntRange(3, 5).Draw(t, "T")}
	nGlobal := rapid.IntRange(1, 3).Draw(t, "globals")
	for i := 0; i < nGlobal; i++ {
		c.Params = append(c.Params, tParam{Name: fmt.Sprintf("F%d", i), Global: true, Default: []string{"", "true", "false"}[rapid.IntRange(0, 2).Draw(t, "gdef")]})
	}
	nLA := 0
	if rapid.IntRange(0, 2).Draw(t, "withLA") > 0 {
		nLA = rapid.IntRange(1, 2).Draw(t, "las")
	}
	for i := 0; i < nLA; i++ {
		c.Params = append(c.Params, tParam{Name: fmt.Sprintf("L%d", i), Global: true, LA: true, Default: "false"})
	}
	nNT := rapid.IntRange(2, 5).Draw(t, "nNT")
	for i := 0; i < nNT; i++ {
		nt := tNT{Name: string(rune('A' + i))}
		if i > 0 { // the first nonterminal is the input and cannot be parametrized
			for p := range c.Params {
				if c.Params[p].Global && !c.Params[p].LA && rapid.IntRange(0, 2).Draw(t, "declG") == 0 {
					nt.Params = append(nt.Params, p)
				}
			}
			for k := rapid.IntRange(0, 2).Draw(t, "inline"); k > 0; k-- {
				name := []string{"X", "Y"}[rapid.IntRange(0, 1).Draw(t, "iname")]
				dup := false
				for _, p := range nt.Params {
					dup = dup || c.Params[p].Name == name
				}
				if dup {
					continue
				}
				c.Params = append(c.Params, tParam{Name: name, Owner: i, Default: []string{"", "true", "false"}[rapid.IntRange(0, 2).Draw(t, "idef")]})
				nt.Params = append(nt.Params, len(c.Params)-1)
			}
		}
		c.NTs = append(c.NTs, nt)
	}
	c.Inputs = []int{0}
	var las []int
	for p := range c.Params {
		if c.Params[p].LA {
			las = append(las, p)
		}
	}
	isInput := func(nt int) bool { return nt == 0 }
	byName := func(nt int, name string) (int, bool) {
		for _, q := range c.NTs[nt].Params {
			if c.Params[q].Name == name {
				return q, true
			}
		}
		return 0, false
	}
	genPred := func(nt int) [][]tLit {
		vis := append([]int(nil), c.NTs[nt].Params...)
		if !isInput(nt) {
			vis = append(vis, las...)
		}
		if len(vis) == 0 {
			return nil
		}
		var pred [][]tLit
		for i := rapid.IntRange(1, 2).Draw(t, "disj"); i > 0; i-- {
			var conj []tLit
			for j := rapid.IntRange(1, 2).Draw(t, "conj"); j > 0; j-- {
				conj = append(conj, tLit{
					Param: vis[rapid.IntRange(0, len(vis)-1).Draw(t, "pp")],
					Form:  []string{"p", "p", "not", "not", "eq", "ne"}[rapid.IntRange(0, 5).Draw(t, "form")],
					Lit:   rapid.Bool().Draw(t, "plit"),
				})
			}
			pred = append(pred, conj)
		}
		return pred
	}
	// alternatives and parts
	for i := range c.NTs {
		nAlts := rapid.IntRange(1, 3).Draw(t, "nalts")
		for a := 0; a < nAlts; a++ {
			alt := tAlt{}
			if a > 0 && rapid.IntRange(0, 3).Draw(t, "cond") > 0 {
				alt.Pred = genPred(i)
			}
			nParts := rapid.IntRange(1, 3).Draw(t, "nparts")
			for k := 0; k < nParts; k++ {
				if rapid.IntRange(0, 2).Draw(t, "isTerm") == 0 {
					alt.Parts = append(alt.Parts, tPart{Term: rapid.IntRange(1, c.T-1).Draw(t, "term")})
					continue
				}
				target := rapid.IntRange(1, nNT-1).Draw(t, "target")
				if k == 0 && target <= i {
					alt.Parts = append(alt.Parts, tPart{Term: rapid.IntRange(1, c.T-1).Draw(t, "guard")})
				}
				part := tPart{NT: target, Opt: len(alt.Parts) > 0 && rapid.IntRange(0, 5).Draw(t, "opt") == 0}
				for _, p := range c.NTs[target].Params {
					_, callerHas := byName(i, c.Params[p].Name)
					canOmit := callerHas || c.Params[p].Default != ""
					roll := rapid.IntRange(0, 9).Draw(t, "argKind")
					switch {
					case roll < 3 && canOmit:
						// omitted: same-named parameter of the caller, else the default
					case roll < 4 && callerHas:
						part.Args = append(part.Args, tArg{Param: p, Kind: "prop"})
					case roll < 6 && len(c.NTs[i].Params)+len(las) > 0 && !(isInput(i) && len(c.NTs[i].Params) == 0):
						vis := append([]int(nil), c.NTs[i].Params...)
						if !isInput(i) {
							vis = append(vis, las...)
						}
						part.Args = append(part.Args, tArg{Param: p, Kind: "ref", From: vis[rapid.IntRange(0, len(vis)-1).Draw(t, "from")]})
					case roll < 7:
						part.Args = append(part.Args, tArg{Param: p, Kind: "lit", Lit: rapid.Bool().Draw(t, "alit")})
					case roll < 8:
						part.Args = append(part.Args, tArg{Param: p, Kind: "false"})
					default:
						part.Args = append(part.Args, tArg{Param: p, Kind: "true"})
					}
				}
				alt.Parts = append(alt.Parts, part)
			}
			c.NTs[i].Alts = append(c.NTs[i].Alts, alt)
		}
	}
	if len(las) == 0 {
		return c
	}
	// lookahead flags: which nonterminals test or forward a flag themselves
	uses := make([]map[int]bool, nNT)
	for i := range c.NTs {
		uses[i] = map[int]bool{}
		for _, a := range c.NTs[i].Alts {
			for _, conj := range a.Pred {
				for _, l := range conj {
					if c.Params[l.Param].LA {
						uses[i][l.Param] = true
					}
				}
			}
			for _, p := range a.Parts {
				for _, arg := range p.Args {
					if arg.Kind == "ref" && c.Params[arg.From].LA {
						uses[i][arg.From] = true
					}
				}
			}
		}
	}
	// accept(X): flags used by X or by the leftmost references of its alternatives
	accept := make([]map[int]bool, nNT)
	for i := range accept {
		accept[i] = map[int]bool{}
		for l := range uses[i] {
			accept[i][l] = true
		}
	}
	for changed := true; changed; {
		changed = false
		for i := range c.NTs {
			for _, a := range c.NTs[i].Alts {
				if len(a.Parts) > 0 && a.Parts[0].Term == 0 {
					for l := range accept[a.Parts[0].NT] {
						if !accept[i][l] {
							accept[i][l] = true
							changed = true
						}
					}
				}
			}
		}
	}
	// every nonterminal using a flag needs a reference that supplies it
	type refPos struct{ nt, alt, part int }
	refsTo := map[int][]refPos{}
	for i := range c.NTs {
		for ai, a := range c.NTs[i].Alts {
			for pi, p := range a.Parts {
				if p.Term == 0 {
					refsTo[p.NT] = append(refsTo[p.NT], refPos{i, ai, pi})
				}
			}
		}
	}
	supply := func(rp refPos, l int) {
		part := &c.NTs[rp.nt].Alts[rp.alt].Parts[rp.part]
		for _, a := range part.Args {
			if a.Param == l {
				return
			}
		}
		kind := []string{"true", "true", "false", "lit"}[rapid.IntRange(0, 3).Draw(t, "laKind")]
		part.Args = append(part.Args, tArg{Param: l, Kind: kind, Lit: rapid.Bool().Draw(t, "laLit")})
	}
	for i := range c.NTs {
		for _, l := range las {
			if !uses[i][l] {
				continue
			}
			if rs := refsTo[i]; len(rs) > 0 {
				supply(rs[rapid.IntRange(0, len(rs)-1).Draw(t, "supplyRef")], l)
				continue
			}
			// never referenced: the flag cannot be provided, test a declared parameter instead
			for ai := range c.NTs[i].Alts {
				a := &c.NTs[i].Alts[ai]
				if len(c.NTs[i].Params) == 0 {
					a.Pred = nil
				}
				for ci := range a.Pred {
					for li := range a.Pred[ci] {
						if a.Pred[ci][li].Param == l {
							a.Pred[ci][li].Param = c.NTs[i].Params[0]
						}
					}
				}
				for pi := range a.Parts {
					args := a.Parts[pi].Args[:0]
					for _, arg := range a.Parts[pi].Args {
						if arg.Kind == "ref" && arg.From == l {
							arg = tArg{Param: arg.Param, Kind: "false"}
						}
						args = append(args, arg)
					}
					a.Parts[pi].Args = args
				}
			}
		}
	}
	// a few more explicit lookahead arguments where the target accepts the flag
	for i := range c.NTs {
		for ai := range c.NTs[i].Alts {
			for pi, p := range c.NTs[i].Alts[ai].Parts {
				if p.Term != 0 {
					continue
				}
				for _, l := range las {
					if accept[p.NT][l] && rapid.IntRange(0, 5).Draw(t, "extraLA") == 0 {
						supply(refPos{i, ai, pi}, l)
					}
				}
			}
		}
	}
	return c
}
