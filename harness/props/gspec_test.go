package props

import (
	"fmt"
	"strings"

	"github.com/inspirer/textmapper/lalr"
	"github.com/inspirer/textmapper/status"
	"pgregory.net/rapid"

	"verif/harness/internal/oracle"
)

// gSpec is a plain context-free grammar spec shared by the LALR-level checks (C01, C03..C08).
// Symbols: 0 = eoi, 1..T-1 terminals, T..T+N-1 nonterminals.
type gSpec struct {
	T      int      `json:"t"`
	N      int      `json:"n"`
	Rules  []gRule  `json:"rules"`
	Inputs []gInput `json:"inputs"`
	Prec   []gPrec  `json:"prec,omitempty"`
}

type gRule struct {
	L    int   `json:"l"` // symbol number of the LHS (>= T)
	R    []int `json:"r"`
	Prec int   `json:"prec,omitempty"` // %prec terminal, 0 = none
	Act  int   `json:"act,omitempty"`  // Rule.Action
	Typ  int   `json:"typ,omitempty"`  // Rule.Type+1 (0 = unset => -1)
	Flag string `json:"flag,omitempty"`
	// Mark > 0: a state marker sits in front of R[Mark-1] (Mark-1 == len(R): at the end; in an empty
	// rule: alone). Markers take no stack slot and do not change the language.
	Mark int `json:"mark,omitempty"`
}

type gInput struct {
	NT  int  `json:"nt"`
	Eoi bool `json:"eoi"`
}

type gPrec struct {
	Assoc int   `json:"assoc"` // 0 left, 1 right, 2 nonassoc
	Terms []int `json:"terms"`
}

type srcNode int

func (n srcNode) SourceRange() status.SourceRange {
	return status.SourceRange{Filename: "g", Offset: int(n), EndOffset: int(n) + 1, Line: 1 + int(n), Column: 1}
}

func (g *gSpec) symName(s int) string {
	switch {
	case s == 0:
		return "eoi"
	case s < g.T:
		return string(rune('a' + s - 1))
	default:
		return string(rune('A' + s - g.T))
	}
}

func (g *gSpec) String() string {
	var sb strings.Builder
	for i, inp := range g.Inputs {
		if i > 0 {
			sb.WriteString(", ")
		} else {
			sb.WriteString("%input ")
		}
		sb.WriteString(g.symName(inp.NT))
		if !inp.Eoi {
			sb.WriteString(" no-eoi")
		}
	}
	sb.WriteString("; ")
	for _, p := range g.Prec {
		sb.WriteString([]string{"%left", "%right", "%nonassoc"}[p.Assoc])
		for _, t := range p.Terms {
			sb.WriteString(" " + g.symName(t))
		}
		sb.WriteString("; ")
	}
	for i, r := range g.Rules {
		if i > 0 {
			sb.WriteString(" ; ")
		}
		fmt.Fprintf(&sb, "%d: %s ->", i, g.symName(r.L))
		for _, s := range r.R {
			sb.WriteString(" " + g.symName(s))
		}
		if len(r.R) == 0 {
			sb.WriteString(" ε")
		}
		if r.Prec != 0 {
			sb.WriteString(" %prec " + g.symName(r.Prec))
		}
	}
	return sb.String()
}

func (g *gSpec) valid() bool {
	if g.T < 2 || g.T > 40 || g.N < 1 || g.N > 26 || len(g.Inputs) == 0 {
		return false
	}
	for _, r := range g.Rules {
		if r.L < g.T || r.L >= g.T+g.N {
			return false
		}
		for _, s := range r.R {
			if s < 1 || s >= g.T+g.N {
				return false
			}
		}
		if r.Prec < 0 || r.Prec >= g.T {
			return false
		}
	}
	seen := map[int]bool{}
	for _, inp := range g.Inputs {
		if inp.NT < g.T || inp.NT >= g.T+g.N || seen[inp.NT] {
			return false
		}
		seen[inp.NT] = true
	}
	for _, p := range g.Prec {
		if p.Assoc < 0 || p.Assoc > 2 {
			return false
		}
		for _, t := range p.Terms {
			if t < 1 || t >= g.T {
				return false
			}
		}
	}
	return true
}

func (g *gSpec) toLalr() *lalr.Grammar {
	ret := &lalr.Grammar{Terminals: g.T, Origin: srcNode(0)}
	for s := 0; s < g.T+g.N; s++ {
		ret.Symbols = append(ret.Symbols, g.symName(s))
	}
	for _, inp := range g.Inputs {
		ret.Inputs = append(ret.Inputs, lalr.Input{Nonterminal: lalr.Sym(inp.NT), Eoi: inp.Eoi})
	}
	for i, r := range g.Rules {
		lr := lalr.Rule{LHS: lalr.Sym(r.L), Precedence: lalr.Sym(r.Prec), Action: r.Act, Type: r.Typ - 1, Origin: srcNode(i + 1)}
		for k, s := range r.R {
			if r.Mark == k+1 {
				lr.RHS = append(lr.RHS, lalr.Marker(0))
			}
			lr.RHS = append(lr.RHS, lalr.Sym(s))
		}
		if r.Mark == len(r.R)+1 {
			lr.RHS = append(lr.RHS, lalr.Marker(0))
		}
		if r.Mark > 0 && len(ret.Markers) == 0 {
			ret.Markers = []string{"m"}
		}
		if r.Flag != "" {
			lr.Flags = []string{r.Flag}
		}
		ret.Rules = append(ret.Rules, lr)
	}
	for _, p := range g.Prec {
		lp := lalr.Precedence{Associativity: lalr.Associativity(p.Assoc)}
		for _, t := range p.Terms {
			lp.Terminals = append(lp.Terminals, lalr.Sym(t))
		}
		ret.Precedence = append(ret.Precedence, lp)
	}
	return ret
}

func (g *gSpec) toCFG() *oracle.CFG {
	c := &oracle.CFG{Terms: g.T, Nts: g.N}
	for _, r := range g.Rules {
		c.Rules = append(c.Rules, oracle.CFGRule{LHS: r.L, RHS: append([]int(nil), r.R...)})
	}
	for _, inp := range g.Inputs {
		c.Inputs = append(c.Inputs, oracle.CFGInput{NT: inp.NT, Eoi: inp.Eoi})
	}
	return c
}

// gFamilies are seeds from known grammar families; lower-case words are terminals, upper-case
// nonterminals, "|" separates alternatives, ";" rules. The first nonterminal is the default input.
var gFamilies = []string{
	"E: E p T | T ; T: T m F | F ; F: l E r | a",
	"L: L c I | I ; I: a | b",
	"S: A B c ; A: a | ; B: b |",
	"S: l S r S |",
	"S: L e R | R ; L: s R | i ; R: L",
	"S: a E c | a F d | b F c | b E d ; E: e ; F: e",
	"S: a S | b",
	"S: A a | b A c | d c | b d a ; A: d",
	"S: A B C d ; A: a | ; B: A | b ; C: c |",
	"P: P S | ; S: i e t S | x s",
	"E: E p E | a",
	"S: a S a | b",
	"S: A | B ; A: a A b | ; B: a B c |",
	"S: i S | i S e S | x",
	"S: A S | ; A: a | b A",
	"D: T L s ; T: i | f ; L: L c x | x",
	"S: X Y ; X: a X | ; Y: b Y | b",
	"S: A ; A: B ; B: C ; C: c | l A r",
	"S: O a ; O: o |",
	"S: L ; L: L I | I ; I: a | l L r | l r",
}

func parseFamily(src string) gSpec {
	type alt struct {
		lhs string
		rhs []string
	}
	var alts []alt
	ntIndex := map[string]int{}
	var ntNames []string
	for _, rule := range strings.Split(src, ";") {
		parts := strings.SplitN(rule, ":", 2)
		lhs := strings.TrimSpace(parts[0])
		if _, ok := ntIndex[lhs]; !ok {
			ntIndex[lhs] = len(ntNames)
			ntNames = append(ntNames, lhs)
		}
		for _, a := range strings.Split(parts[1], "|") {
			alts = append(alts, alt{lhs, strings.Fields(a)})
		}
	}
	termIndex := map[string]int{}
	for _, a := range alts {
		for _, s := range a.rhs {
			if _, ok := ntIndex[s]; ok {
				continue
			}
			if _, ok := termIndex[s]; !ok {
				termIndex[s] = 1 + len(termIndex)
			}
		}
	}
	g := gSpec{T: 1 + len(termIndex), N: len(ntNames)}
	for _, a := range alts {
		r := gRule{L: g.T + ntIndex[a.lhs], R: []int{}}
		for _, s := range a.rhs {
			if i, ok := ntIndex[s]; ok {
				r.R = append(r.R, g.T+i)
			} else {
				r.R = append(r.R, termIndex[s])
			}
		}
		g.Rules = append(g.Rules, r)
	}
	g.Inputs = []gInput{{NT: g.T, Eoi: true}}
	return g
}

type gGenOpts struct {
	MaxT, MaxN      int
	MaxInputs       int
	MaxRulesPerNT   int
	MaxRHS          int
	AllowUnusedNT   bool
	FamilyPercent   int
	NoEoiPercent    int
}

var gDefaultOpts = gGenOpts{MaxT: 6, MaxN: 6, MaxInputs: 3, MaxRulesPerNT: 4, MaxRHS: 4, FamilyPercent: 60, NoEoiPercent: 30}

func genSym(t *rapid.T, g *gSpec, label string) int {
	// terminals 1..T-1 and nonterminals T..T+N-1, with a slight bias to nonterminals
	if g.T > 1 && rapid.IntRange(0, 9).Draw(t, label+"k") < 5 {
		return rapid.IntRange(1, g.T-1).Draw(t, label+"t")
	}
	return rapid.IntRange(g.T, g.T+g.N-1).Draw(t, label+"n")
}

// genGSpec draws a grammar: a mutated family seed or a fully random one.
func genGSpec(t *rapid.T, o gGenOpts) gSpec {
	var g gSpec
	if rapid.IntRange(0, 99).Draw(t, "fam") < o.FamilyPercent {
		g = parseFamily(gFamilies[rapid.IntRange(0, len(gFamilies)-1).Draw(t, "family")])
		// optionally widen the symbol space
		if g.N < o.MaxN && rapid.IntRange(0, 3).Draw(t, "extraNT") == 0 {
			g.N++
			nr := rapid.IntRange(1, 2).Draw(t, "extraRules")
			for i := 0; i < nr; i++ {
				g.Rules = append(g.Rules, genRule(t, &g, g.T+g.N-1, o))
			}
		}
		nm := rapid.IntRange(0, 3).Draw(t, "mutations")
		for i := 0; i < nm; i++ {
			mutateGSpec(t, &g, o)
		}
	} else {
		g.T = rapid.IntRange(2, o.MaxT).Draw(t, "T")
		g.N = rapid.IntRange(1, o.MaxN).Draw(t, "N")
		for nt := 0; nt < g.N; nt++ {
			k := rapid.IntRange(1, o.MaxRulesPerNT).Draw(t, "nrules")
			if nt > 0 && rapid.IntRange(0, 19).Draw(t, "norules") == 0 {
				k = 0 // a nonterminal without rules (unproductive)
			}
			for i := 0; i < k; i++ {
				g.Rules = append(g.Rules, genRule(t, &g, g.T+nt, o))
			}
		}
	}
	// inputs
	ni := 1
	if o.MaxInputs > 1 && rapid.IntRange(0, 2).Draw(t, "multi") == 0 {
		ni = rapid.IntRange(1, min(o.MaxInputs, g.N)).Draw(t, "ninputs")
	}
	g.Inputs = nil
	used := map[int]bool{}
	for i := 0; i < ni; i++ {
		nt := g.T
		if i > 0 || rapid.IntRange(0, 4).Draw(t, "otherStart") == 0 {
			nt = rapid.IntRange(g.T, g.T+g.N-1).Draw(t, "inputNT")
		}
		if used[nt] {
			continue
		}
		used[nt] = true
		g.Inputs = append(g.Inputs, gInput{NT: nt, Eoi: rapid.IntRange(0, 99).Draw(t, "noeoi") >= o.NoEoiPercent})
	}
	return g
}

func genRule(t *rapid.T, g *gSpec, lhs int, o gGenOpts) gRule {
	n := rapid.IntRange(0, o.MaxRHS).Draw(t, "rhslen")
	r := gRule{L: lhs, R: []int{}}
	for i := 0; i < n; i++ {
		r.R = append(r.R, genSym(t, g, "sym"))
	}
	if rapid.IntRange(0, 11).Draw(t, "marker") == 0 {
		r.Mark = 1 + rapid.IntRange(0, n).Draw(t, "markerPos")
	}
	return r
}

func mutateGSpec(t *rapid.T, g *gSpec, o gGenOpts) {
	if len(g.Rules) == 0 {
		g.Rules = append(g.Rules, genRule(t, g, g.T, o))
		return
	}
	ri := rapid.IntRange(0, len(g.Rules)-1).Draw(t, "mrule")
	switch rapid.IntRange(0, 7).Draw(t, "mop") {
	case 0: // drop rule
		if len(g.Rules) > 1 {
			g.Rules = append(g.Rules[:ri:ri], g.Rules[ri+1:]...)
		}
	case 1: // add rule
		g.Rules = append(g.Rules, genRule(t, g, rapid.IntRange(g.T, g.T+g.N-1).Draw(t, "mlhs"), o))
	case 2: // replace a symbol
		if len(g.Rules[ri].R) > 0 {
			r := append([]int(nil), g.Rules[ri].R...)
			r[rapid.IntRange(0, len(r)-1).Draw(t, "mpos")] = genSym(t, g, "msym")
			g.Rules[ri].R = r
		}
	case 3: // insert a symbol
		if len(g.Rules[ri].R) < o.MaxRHS+1 {
			r := append([]int(nil), g.Rules[ri].R...)
			p := rapid.IntRange(0, len(r)).Draw(t, "mipos")
			r = append(r[:p:p], append([]int{genSym(t, g, "misym")}, r[p:]...)...)
			g.Rules[ri].R = r
		}
	case 4: // delete a symbol
		if len(g.Rules[ri].R) > 0 {
			r := append([]int(nil), g.Rules[ri].R...)
			p := rapid.IntRange(0, len(r)-1).Draw(t, "mdpos")
			g.Rules[ri].R = append(r[:p:p], r[p+1:]...)
		}
	case 5: // add an empty alternative
		g.Rules = append(g.Rules, gRule{L: g.Rules[ri].L, R: []int{}})
	case 6: // duplicate a rule under another lhs
		nr := g.Rules[ri]
		nr.R = append([]int(nil), nr.R...)
		nr.L = rapid.IntRange(g.T, g.T+g.N-1).Draw(t, "mduplhs")
		g.Rules = append(g.Rules, nr)
	case 7: // swap with neighbour (changes rule order => r/r defaults)
		if ri+1 < len(g.Rules) {
			g.Rules[ri], g.Rules[ri+1] = g.Rules[ri+1], g.Rules[ri]
		}
	}
}

func tokensString(g *gSpec, toks []int) string {
	var sb strings.Builder
	for i, t := range toks {
		if i > 0 {
			sb.WriteByte(' ')
		}
		sb.WriteString(g.symName(t))
	}
	return sb.String()
}

// genPrec adds 1..4 precedence groups over distinct terminals and %prec markers on some rules.
func genPrec(t *rapid.T, g *gSpec, precRulePercent int) {
	if g.T < 2 {
		return
	}
	ng := rapid.IntRange(1, 4).Draw(t, "precGroups")
	used := map[int]bool{}
	for i := 0; i < ng; i++ {
		p := gPrec{Assoc: rapid.IntRange(0, 2).Draw(t, "assoc")}
		k := rapid.IntRange(1, 2).Draw(t, "precTerms")
		for j := 0; j < k; j++ {
			term := rapid.IntRange(1, g.T-1).Draw(t, "precTerm")
			if !used[term] {
				used[term] = true
				p.Terms = append(p.Terms, term)
			}
		}
		if len(p.Terms) > 0 {
			g.Prec = append(g.Prec, p)
		}
	}
	for i := range g.Rules {
		if rapid.IntRange(0, 99).Draw(t, "hasPrec") < precRulePercent {
			g.Rules[i].Prec = rapid.IntRange(1, g.T-1).Draw(t, "rulePrec")
		}
	}
}

// gAmbiguousFamilies are expression-like seeds whose conflicts are meant to be settled by precedence.
var gAmbiguousFamilies = []string{
	"E: E p E | E m E | a",
	"E: E p E | E m E | n E | l E r | a",
	"E: E q E c E | E p E | a",
	"S: i S | i S e S | x",
	"E: E E | a | b",
	"E: E p E | E m E | E x E | a",
	"E: n E | E f | E p E | a",
	"S: E ; E: E p T | T p E | T ; T: a | l E r",
	"E: E l E | E g E | a",
}
