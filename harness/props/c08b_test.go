package props

import (
	"encoding/json"
	"fmt"
	"strings"
	"testing"

	"pgregory.net/rapid"

	"github.com/inspirer/textmapper/grammar"
	"verif/harness/internal/batch"
	"verif/harness/internal/ev"
)

// C08 in generated code: the decision procedure the Go templates emit for a set of lookahead
// alternatives is executed on every truth assignment. Predicate j is "token j of the input is
// 'T'", so an input of M bits is a truth assignment. Oracle: the truth table of the conjunctions.

type c08bCase struct {
	C           c08Case `json:"c"`
	Cancellable bool    `json:"cancellable"`
	Recursive   bool    `json:"recursive"`
	Opt         bool    `json:"optimize"`
	Many        bool    `json:"many,omitempty"` // File: Item+ (used by the C29 lookahead family)
	// Nested: every item is first recognised inside a lookahead (`Wrap: (?= Chk) Item; Chk: Item`),
	// so the decision code also runs while another predicate is being evaluated.
	Nested bool `json:"nested,omitempty"`
	// Stream: tokenStream = true.
	Stream bool `json:"stream,omitempty"`
	// Deep: `lalr(2)`, and predicate Pj (j <= M-3) is written so that recognising it needs two
	// tokens of lookahead: `Bit^j A Bit 'T' | Bit^j B Bit 'F'` with A: 'T'; B: 'T'.
	Deep bool `json:"deep,omitempty"`
	// Min: minimizeDFA = true.
	Min bool `json:"minimize,omitempty"`
	// LeadT: alternatives that only match items starting with 'T' (so the alternatives that meet
	// on the lookahead token 'F' are a subset of those that meet on 'T').
	LeadT []bool `json:"leadT,omitempty"`
}

func c08bGen(t *rapid.T) c08bCase {
	c := c08bCase{
		Cancellable: rapid.Bool().Draw(t, "cancellable"),
		Recursive:   rapid.Bool().Draw(t, "recursive"),
		Opt:         rapid.Bool().Draw(t, "optimize"),
	}
	c.Nested = c.Recursive && rapid.Bool().Draw(t, "nested")
	c.Stream = rapid.IntRange(0, 2).Draw(t, "stream") == 0
	c.Deep = rapid.IntRange(0, 2).Draw(t, "deep") == 0
	c.Min = rapid.IntRange(0, 2).Draw(t, "minimize") == 0
	if rapid.IntRange(0, 3).Draw(t, "anySet") == 0 {
		c.C = c08Gen(t) // any set, most are rejected by the compiler
		c.drawLeads(t)
		return c
	}
	// An ordered decision tree: level d tests predicate perm[d]; every leaf is an alternative whose
	// conjunction is its path, so the set is exclusive, exhaustive and consistently ordered.
	c.C.M = rapid.IntRange(1, 4).Draw(t, "m")
	perm := rapid.Permutation([]int{0, 1, 2, 3}[:c.C.M]).Draw(t, "perm")
	var split func(depth int, path []c08Pred)
	split = func(depth int, path []c08Pred) {
		if depth == c.C.M || len(c.C.Alts) >= 6 || (depth > 0 && rapid.IntRange(0, 2).Draw(t, "leaf") == 0) {
			c.C.Alts = append(c.C.Alts, c08Alt{Preds: append([]c08Pred(nil), path...)})
			return
		}
		first := rapid.Bool().Draw(t, "negFirst")
		split(depth+1, append(path, c08Pred{In: perm[depth], Neg: first}))
		split(depth+1, append(path, c08Pred{In: perm[depth], Neg: !first}))
	}
	split(0, nil)
	c.drawLeads(t)
	return c
}

func (c *c08bCase) drawLeads(t *rapid.T) {
	if c.C.M < 1 || rapid.IntRange(0, 2).Draw(t, "leads") != 0 {
		return
	}
	c.LeadT = make([]bool, len(c.C.Alts))
	for i := range c.LeadT {
		c.LeadT[i] = rapid.IntRange(0, 2).Draw(t, "leadT") == 0
	}
}

// leadT reports whether alternative alt only matches items whose first token is 'T'.
func (c *c08bCase) leadT(alt int) bool { return alt < len(c.LeadT) && c.LeadT[alt] }

// lead is the extra first token of an item decided as alternative alt: none without LeadT, 'T'
// where the alternative demands it, else 'F' (the state in which fewer alternatives meet).
func (c *c08bCase) lead(alt int) string {
	switch {
	case len(c.LeadT) == 0:
		return ""
	case c.leadT(alt):
		return "T"
	}
	return "F"
}

// tail is what follows the bits and ';' of an item decided as alternative alt.
func (c *c08bCase) tail(alt int) string {
	if !c.Nested {
		return ""
	}
	return strings.Repeat("T", alt) + ";"
}

func (c *c08bCase) render(name string) string {
	var sb strings.Builder
	fmt.Fprintf(&sb, "language %s(go);\n\npackage = \"scratch/%s\"\neventBased = true\ncancellable = %v\nrecursiveLookaheads = %v\noptimizeTables = %v\ntokenStream = %v\nminimizeDFA = %v\n\n:: lexer\n\n'T': /T/\n'F': /F/\n';': /;/\n\n:: parser%s\n\n%%input File;\n\nFile:\n    %s%s ;\n\n", name, name, c.Cancellable, c.Recursive, c.Opt, c.Stream, c.Min,
		map[bool]string{true: " lalr(2)", false: ""}[c.Deep], map[bool]string{true: "Wrap", false: "Item"}[c.Nested], map[bool]string{true: "+", false: ""}[c.Many])
	if c.Nested {
		// (the second alternative is never taken on a valid input: Chk is the item itself)
		sb.WriteString("Wrap:\n    (?= Chk) Item\n  | (?= !Chk) Item ';' ';' ;\n\nChk:\n    Item ;\n\n")
	}
	sb.WriteString("Item:\n")
	for i, a := range c.C.Alts {
		var ps []string
		for _, p := range a.Preds {
			s := fmt.Sprintf("P%d", p.In)
			if p.Neg {
				s = "!" + s
			}
			ps = append(ps, s)
		}
		sep := "  | "
		if i == 0 {
			sep = "    "
		}
		// nested: every alternative ends differently, so that a wrong decision inside the
		// lookahead makes the lookahead fail
		tail := ""
		if c.Nested {
			tail = strings.Repeat(" 'T'", i) + " ';'"
		}
		body := "Body"
		if c.leadT(i) {
			body = "BodyT" // this alternative needs a 'T' as its first token
		}
		fmt.Fprintf(&sb, "%s(?= %s) %s%s -> Alt%d\n", sep, strings.Join(ps, " & "), body, tail, i)
	}
	// with LeadT every item starts with one extra token that no predicate looks at
	lead := ""
	if len(c.LeadT) > 0 {
		lead = " Bit"
	}
	sb.WriteString(";\n\nBody:\n   " + lead)
	for j := 0; j < c.C.M; j++ {
		sb.WriteString(" Bit")
	}
	sb.WriteString(" ';' ;\n\n")
	if len(c.LeadT) > 0 {
		sb.WriteString("BodyT:\n    'T'" + strings.Repeat(" Bit", c.C.M) + " ';' ;\n\n")
	}
	sb.WriteString("Bit:\n    'T' | 'F' ;\n\n")
	deepUsed := false
	for j := 0; j < c.C.M; j++ {
		skip := lead + strings.Repeat(" Bit", j)
		if c.Deep && j <= c.C.M-3 {
			deepUsed = true
			fmt.Fprintf(&sb, "P%d:\n   %s TA Bit 'T'\n  |%s TB Bit 'F' ;\n\n", j, skip, skip)
			continue
		}
		fmt.Fprintf(&sb, "P%d:\n   %s 'T' ;\n\n", j, skip)
	}
	if deepUsed {
		sb.WriteString("TA:\n    'T' ;\n\nTB:\n    'T' ;\n\n")
	}
	return sb.String()
}

// laAdapter returns the reported node types joined by ',' followed by "|ok" or "|err ...".
func laAdapter(g *grammar.Grammar, files map[string]string) map[string]string {
	var sb strings.Builder
	imports := "\"fmt\"\n\t\"strings\""
	ctxArg := ""
	if g.Options.Cancellable {
		imports = "\"context\"\n\t" + imports
		ctxArg = "context.Background(), "
	}
	fmt.Fprintf(&sb, "package %s\n\nimport (\n\t%s\n)\n\n", g.Name, imports)
	sb.WriteString("func VerifRun(entry int, src string, arg string) string {\n\tvar sb strings.Builder\n\tlistener := func(t NodeType, offset, endoffset int) { fmt.Fprintf(&sb, \"%v,\", t) }\n")
	if g.Options.TokenStream {
		sb.WriteString("\tvar l TokenStream\n\tl.Init(src, listener)\n")
	} else {
		sb.WriteString("\tvar l Lexer\n\tl.Init(src)\n")
	}
	sb.WriteString("\tvar p Parser\n\tp.Init(listener)\n")
	fmt.Fprintf(&sb, "\terr := p.Parse(%s&l)\n", ctxArg)
	sb.WriteString("\tif err != nil {\n\t\treturn sb.String() + \"|err \" + err.Error()\n\t}\n\treturn sb.String() + \"|ok\"\n}\n")
	return map[string]string{"verif_export.go": sb.String()}
}

func c08bCheck(c c08bCase, res *batch.Result, run runFunc, r *ev.Recorder) *Failure {
	m := c.C.M
	decided, negUsed := 0, false
	for _, a := range c.C.Alts {
		for _, p := range a.Preds {
			negUsed = negUsed || p.Neg
		}
	}
	for asg := 0; asg < 1<<m; asg++ {
		var sat []int
		for i, a := range c.C.Alts {
			ok := true
			for _, p := range a.Preds {
				v := asg&(1<<p.In) != 0
				ok = ok && v != p.Neg
			}
			if ok {
				sat = append(sat, i)
			}
		}
		if len(sat) != 1 {
			continue // zero or several conjunctions hold: the statement does not say what happens
		}
		var src strings.Builder
		if l := c.lead(sat[0]); l != "" {
			src.WriteString(l + " ")
		}
		for j := 0; j < m; j++ {
			if asg&(1<<j) != 0 {
				src.WriteString("T ")
			} else {
				src.WriteString("F ")
			}
		}
		src.WriteString(";" + c.tail(sat[0]))
		out, pan, err := c19Run(run, 0, strings.ReplaceAll(src.String(), " ", ""), "")
		r.Eval(1)
		where := fmt.Sprintf("input %q; grammar:\n%s", src.String(), c.render("g"))
		if err != nil || pan != "" {
			return failf("parser-panics-or-hangs", "%v %s on %s", err, oneLine(pan, 300), where)
		}
		want := fmt.Sprintf("Alt%d,|ok", sat[0])
		if out != want {
			return failf("wrong-alternative", "only the conjunction of Alt%d holds, the generated parser reports %q (expected %q); %s", sat[0], out, want, where)
		}
		decided++
	}
	if decided >= 2 {
		js, _ := json.Marshal(c)
		r.Nontrivial(string(js))
		if negUsed {
			r.Class("with-negated-predicates")
		}
		if r.WantSample() {
			r.Sample(map[string]any{"grammar": c.render("g"), "assignments_decided": decided})
		}
	}
	return nil
}

func TestC08B(t *testing.T) {
	p := &batchProp[c08bCase]{
		ID:        "C08",
		Rule:      "generated code: the C08 generator's sets of 2..5 lookahead alternatives over 1..4 predicates, rendered as `Item: (?= P0 & !P1) Body -> Alt0 | ...` where predicate Pj is the nonterminal `Bit^j 'T'` (token j of the input is 'T') and Body is M bits and ';'; options cancellable, recursiveLookaheads, optimizeTables, tokenStream on/off, minimizeDFA in a third; in a third of the cases items start with one extra token that no predicate looks at and a third of the alternatives demand a 'T' there (fewer alternatives meet on the lookahead token 'F' than on 'T'); the compiler's verdict is checked too (two different conjunctions that can hold together, or that order two predicates differently, must be rejected); half of the recursive cases recognise every item inside a lookahead first (`Wrap: (?= Chk) Item | (?= !Chk) Item ';' ';'; Chk: Item`, alternative i then ends in i extra 'T' and a ';': the decision code runs nested and a wrong nested decision makes Chk fail), a third are lalr(2) with predicates that need two tokens of lookahead themselves. Sets the compiler rejects are outside this test (the rejection rule is checked in process by TestC08). Every input of M bits is a truth assignment; for each assignment that satisfies exactly one conjunction the generated parser must accept and report that alternative's node. Non-trivial: an accepted set with >= 2 decided assignments; distinct by case JSON.",
		Quick:     64, Thorough: 1280, BatchSize: 64,
		Gen:       c08bGen,
		Unit: func(c c08bCase, name string) (batch.Unit, bool) {
			return batch.Unit{Name: name, TM: c.render(name), Adapter: laAdapter}, true
		},
		Check: c08bCheck,
		// The compiler's verdict on the set (all alternatives meet in one state here): conjunctions
		// that can hold together, or that mention two predicates in opposite orders (no global
		// order exists), have to be rejected.
		OnGenerated: func(c c08bCase, res *batch.Result, r *ev.Recorder) *Failure {
			if res.CompileErr != nil {
				r.Excluded("grammar-rejected-by-compiler(conflicts etc.)")
				return nil
			}
			alts := c.C.Alts
			for i := range alts {
				for j := i + 1; j < len(alts); j++ {
					compatible := true
					pos := map[int]int{}
					for k, p := range alts[i].Preds {
						pos[p.In] = k
					}
					last := -1
					opposite := false
					for _, q := range alts[j].Preds {
						k, shared := pos[q.In]
						if !shared {
							continue
						}
						if alts[i].Preds[k].Neg != q.Neg {
							compatible = false
						}
						if k < last {
							opposite = true
						}
						last = max(last, k)
					}
					// the same conjunction twice is one lookahead nonterminal used by two rules (told
					// apart by what follows), not two competing conditions
					same := len(alts[i].Preds) == len(alts[j].Preds)
					for _, q := range alts[j].Preds {
						k, shared := pos[q.In]
						same = same && shared && alts[i].Preds[k].Neg == q.Neg
					}
					if same {
						continue
					}
					if compatible {
						return failf("non-exclusive-accepted", "alternatives %d and %d can hold together but the compiler accepts the set; grammar:\n%s", i, j, c.render("g"))
					}
					if opposite {
						return failf("inconsistent-order-accepted", "alternatives %d and %d mention two predicates in opposite orders but the compiler accepts the set; grammar:\n%s", i, j, c.render("g"))
					}
				}
			}
			return nil
		},
	}
	p.run(t)
}
