package props

import (
	"fmt"
	"os"
	"os/exec"
	"path/filepath"
	"strings"
)

// c18FreshHash generates the grammar in a fresh process (TestC18Worker: no generation history
// at all) and returns the sha256 it reports, or "" with the worker's output.
func c18FreshHash(name, text string) (string, string) {
	tmp := filepath.Join(scratchDir(), fmt.Sprintf("c18h-%d.tm", os.Getpid()))
	os.MkdirAll(filepath.Dir(tmp), 0o755)
	if err := os.WriteFile(tmp, []byte(text), 0o644); err != nil {
		return "", err.Error()
	}
	defer os.Remove(tmp)
	cmd := exec.Command(os.Args[0], "-test.run", "^TestC18Worker$", "-test.count", "1")
	cmd.Env = append(os.Environ(), "VERIF_C18_FILE="+tmp, "VERIF_C18_NAME="+name, "VERIF_SHARD_OUT=", "VERIF_REPLAY=")
	out, _ := cmd.CombinedOutput()
	for _, l := range strings.Split(string(out), "\n") {
		if strings.HasPrefix(l, "HASH ") {
			return strings.TrimPrefix(l, "HASH "), ""
		}
	}
	return "", oneLine(string(out), 300)
}
