package props

import (
	"encoding/json"
	"fmt"
	"testing"

	"github.com/inspirer/textmapper/lalr"
	"pgregory.net/rapid"

	"verif/harness/internal/ev"
	"verif/harness/internal/oracle"
	"verif/harness/internal/tabint"
)

// C03 — lookahead sets and conflict reports are exactly LALR(1).
// Oracle: canonical LR(1) collection merged by LR(0) core (internal/oracle/lr.go).

type c03Case struct {
	G       gSpec `json:"g"`
	ExpMode int   `json:"exp_mode"` // 0 exact counts, 1 sr+1, 2 rr+1, 3 zero/zero, 4 sr-1 (if >0)
}

func c03Gen(t *rapid.T) c03Case {
	return c03Case{G: genGSpec(t, gDefaultOpts), ExpMode: rapid.IntRange(0, 4).Draw(t, "expmode")}
}

// pairStates walks both automata in lock step from the entry states.
func pairStates(l *oracle.LALR, t *lalr.Tables, nsyms int) (o2t []int, f *Failure) {
	o2t = make([]int, len(l.States))
	for i := range o2t {
		o2t[i] = -1
	}
	t2o := make([]int, t.NumStates)
	for i := range t2o {
		t2o[i] = -1
	}
	type pr struct{ o, t int }
	var queue []pr
	link := func(o, tt int, why string) *Failure {
		if tt < 0 || tt >= t.NumStates {
			return failf("automaton-state-out-of-range", "state %d out of range (%s)", tt, why)
		}
		if o2t[o] == -1 && t2o[tt] == -1 {
			o2t[o], t2o[tt] = tt, o
			queue = append(queue, pr{o, tt})
			return nil
		}
		if o2t[o] != tt || t2o[tt] != o {
			return failf("automaton-not-isomorphic", "state graphs differ: reference state %d (core %v %s) pairs with Textmapper state %d but %s leads to a different pairing (%d<->%d)", o, l.States[o].Core, l.States[o].Tag, o2t[o], why, o, tt)
		}
		return nil
	}
	for i := range l.Init {
		if f := link(l.Init[i], i, fmt.Sprintf("entry of input %d", i)); f != nil {
			return nil, f
		}
	}
	for len(queue) > 0 {
		p := queue[0]
		queue = queue[1:]
		for sym := 0; sym < nsyms; sym++ {
			og, ok := l.States[p.o].Goto[sym]
			tg := tabint.GotoDefault(t.DefaultEnc, p.t, sym)
			if ok != (tg >= 0) {
				return nil, failf("automaton-transition", "Textmapper state %d (reference core %v %s): transition on symbol %d exists in reference=%v, in Textmapper tables=%v", p.t, l.States[p.o].Core, l.States[p.o].Tag, sym, ok, tg >= 0)
			}
			if ok {
				if f := link(og, tg, fmt.Sprintf("transition from %d on symbol %d", p.t, sym)); f != nil {
					return nil, f
				}
			}
		}
	}
	for o, tt := range o2t {
		if tt == -1 {
			return nil, failf("automaton-oracle-unreachable", "oracle state %d unreachable (oracle bug)", o)
		}
	}
	if len(l.States) != t.NumStates {
		return nil, failf("automaton-state-count", "Textmapper has %d states, the LALR(1) automaton has %d", t.NumStates, len(l.States))
	}
	for i := range l.Final {
		if o2t[l.Final[i]] != t.FinalStates[i] {
			return nil, failf("automaton-final-state", "input %d: FinalStates=%d but the accepting state of the reference automaton pairs with %d", i, t.FinalStates[i], o2t[l.Final[i]])
		}
	}
	return o2t, nil
}

func tmCellAction(t *lalr.Tables, state, term int) int {
	a := t.Action[state]
	if a >= -2 {
		return a
	}
	i := -a - 3
	for ; t.Lalr[i] >= 0; i += 2 {
		if t.Lalr[i] == term {
			return t.Lalr[i+1]
		}
	}
	return -2
}

// checkFromToSorted verifies the invariant the generated binary search relies on.
func checkFromToSorted(t *lalr.Tables) *Failure {
	for sym := 0; sym+1 < len(t.Goto); sym++ {
		prev := -1
		for i := t.Goto[sym]; i < t.Goto[sym+1]; i += 2 {
			if t.FromTo[i] <= prev {
				return failf("fromto-not-sorted", "FromTo entries of symbol %d are not strictly increasing by source state (generated gotoState uses binary search)", sym)
			}
			prev = t.FromTo[i]
		}
	}
	return nil
}

func c03Check(c c03Case, r *ev.Recorder) *Failure {
	g := c.G
	if !g.valid() || len(g.Prec) != 0 {
		return nil
	}
	cfg := g.toCFG()
	l, err := oracle.BuildLALR(cfg, 3000)
	if err != nil {
		r.Excluded("lr1-collection-too-large")
		return nil
	}
	// reference cells and counts
	wantSR, wantRR := 0, 0
	trueMerge, conflictCells := false, 0
	for si := range l.States {
		cells, reduces := l.Cells(si)
		if l.States[si].TrueMerge {
			trueMerge = true
		}
		lr0 := len(reduces) == 0 || (len(reduces) == 1 && !l.HasTerminalShift(si))
		if lr0 {
			continue
		}
		for _, cell := range cells {
			switch {
			case cell.Shift && len(cell.Reduces) > 0:
				wantSR++
				conflictCells++
			case !cell.Shift && len(cell.Reduces) > 1:
				wantRR++
				conflictCells++
			}
		}
	}
	lg := g.toLalr()
	switch c.ExpMode {
	case 0:
		lg.ExpectSR, lg.ExpectRR = wantSR, wantRR
	case 1:
		lg.ExpectSR, lg.ExpectRR = wantSR+1, wantRR
	case 2:
		lg.ExpectSR, lg.ExpectRR = wantSR, wantRR+1
	case 3:
		lg.ExpectSR, lg.ExpectRR = 0, 0
	case 4:
		lg.ExpectSR, lg.ExpectRR = wantSR, wantRR
		if wantSR > 0 {
			lg.ExpectSR--
		}
	}
	t, cerr := lalr.Compile(lg, lalr.Options{})
	r.Eval(1)
	desc := func() string { return g.String() }

	o2t, f := pairStates(l, t, g.T+g.N)
	if f != nil {
		f.Msg += "; grammar: " + desc()
		return f
	}
	if f := checkFromToSorted(t); f != nil {
		f.Msg += "; grammar: " + desc()
		return f
	}
	for si := range l.States {
		ts := o2t[si]
		cells, reduces := l.Cells(si)
		a := t.Action[ts]
		hasTermShift := l.HasTerminalShift(si)
		where := fmt.Sprintf("state %d (core %v%s)", ts, l.States[si].Core, l.States[si].Tag)
		switch {
		case len(reduces) == 0:
			if a != -1 && a != -2 {
				return failf("action-no-reduce-state", "%s has no reducible rule but Action=%d; grammar: %s", where, a, desc())
			}
			if a == -2 && hasTermShift {
				return failf("action-error-but-shifts", "%s can shift a terminal but Action=-2 (error); grammar: %s", where, desc())
			}
		case len(reduces) == 1 && !hasTermShift && a >= -2:
			// The statement permits such a state to reduce without consulting lookahead. A state
			// that does consult it (Action < -2) must then match the LALR(1) cells exactly, which
			// the default branch verifies.
			if a != reduces[0] {
				return failf("action-lr0-reduce", "%s has the single reduction %d and no terminal shifts, but Action=%d; grammar: %s", where, reduces[0], a, desc())
			}
		default:
			if a >= -2 {
				return failf("action-needs-lookahead", "%s has reductions %v (terminal shifts: %v) and needs lookahead, but Action=%d; grammar: %s", where, reduces, hasTermShift, a, desc())
			}
			for term, cell := range cells {
				got := tmCellAction(t, ts, term)
				want := -2
				switch {
				case cell.Shift:
					want = -1
				case len(cell.Reduces) > 0:
					want = cell.Reduces[0]
				}
				if got != want {
					return failf("action-cell", "%s, lookahead %s: LALR(1) candidates {shift:%v reduce:%v} so the action must be %d, Textmapper has %d; grammar: %s", where, g.symName(term), cell.Shift, cell.Reduces, want, got, desc())
				}
			}
		}
	}
	if t.SR != wantSR || t.RR != wantRR {
		return failf("conflict-counts", "Textmapper counts %d shift/reduce and %d reduce/reduce conflicts, the LALR(1) automaton has %d and %d conflicting cells; grammar: %s", t.SR, t.RR, wantSR, wantRR, desc())
	}
	wantErr := wantSR != lg.ExpectSR || wantRR != lg.ExpectRR
	if wantErr != (cerr != nil) {
		return failf("conflict-error-iff-expect-mismatch", "conflicts sr=%d rr=%d, %%expect %d %%expect-rr %d: error expected=%v, got err=%v; grammar: %s", wantSR, wantRR, lg.ExpectSR, lg.ExpectRR, wantErr, cerr, desc())
	}

	switch {
	case conflictCells > 0 && trueMerge:
		r.Class("lalr-merge+conflicts")
	case conflictCells > 0:
		r.Class("conflicts")
	case trueMerge:
		r.Class("lalr-merge,conflict-free")
	default:
		r.Class("lr0/slr-like,conflict-free")
	}
	if len(g.Inputs) > 1 {
		r.Class("multi-input")
	}
	if trueMerge || conflictCells > 0 {
		js, _ := json.Marshal(g)
		r.Nontrivial(string(js))
		if r.WantSample() && trueMerge {
			r.Sample(map[string]any{"grammar": desc(), "states": t.NumStates, "lr1_states": l.LR1, "sr": wantSR, "rr": wantRR})
		}
	}
	return nil
}

// c03Exhaustive enumerates all grammars with <=2 nonterminals, <=2 terminals (plus eoi), <=3
// rules of length <=2.
func c03Exhaustive(r *ev.Recorder, run func(c c03Case) *Failure) *Failure {
	s, shards := shard()
	const T, N = 3, 2
	syms := []int{1, 2, 3, 4} // a b A B
	var rhss [][]int
	rhss = append(rhss, []int{})
	for _, a := range syms {
		rhss = append(rhss, []int{a})
	}
	for _, a := range syms {
		for _, b := range syms {
			rhss = append(rhss, []int{a, b})
		}
	}
	type rl struct{ l, r int }
	var all []rl
	for l := 0; l < N; l++ {
		for ri := range rhss {
			all = append(all, rl{T + l, ri})
		}
	}
	cnt, idx := 0, 0
	var rec func(start int, cur []rl) *Failure
	rec = func(start int, cur []rl) *Failure {
		if len(cur) > 0 {
			idx++
			if idx%shards == s {
				for _, eoi := range []bool{true, false} {
					g := gSpec{T: T, N: N, Inputs: []gInput{{NT: T, Eoi: eoi}}}
					for _, x := range cur {
						g.Rules = append(g.Rules, gRule{L: x.l, R: rhss[x.r]})
					}
					cnt++
					if f := run(c03Case{G: g}); f != nil {
						return f
					}
				}
			}
		}
		if len(cur) == 3 {
			return nil
		}
		for i := start; i < len(all); i++ {
			if f := rec(i+1, append(cur, all[i])); f != nil {
				return f
			}
		}
		return nil
	}
	if f := rec(0, nil); f != nil {
		return f
	}
	r.AddExtra("exhaustive_grammars_le3rules_2nt_2t", int64(cnt))
	r.Exhaustive(true)
	return nil
}

func TestC03(t *testing.T) {
	p := &prop[c03Case]{
		ID:   "C03",
		Rule: "grammars built directly as lalr.Grammar: 60% mutated seeds of 20 known families (expressions, lists, nullable chains, LALR-not-SLR, LR(1)-not-LALR, dangling else, ambiguous), 40% random (2..6 terminals, 1..6 nonterminals, 0..4 rules each of length 0..4, nonterminals without rules), 1..3 distinct inputs (30% no-eoi), %expect values drawn relative to the true counts. Reference: canonical LR(1) collection merged by LR(0) core. Checked: state graph isomorphism from every entry state, FinalStates, per-state/per-terminal action cells, lr0 (no-lookahead) states, SR/RR counts, error iff counts differ from %expect. The thorough tier also enumerates every grammar with <=3 rules over {a,b,A,B} (rule length <=2), eoi and no-eoi. Non-trivial: a state where merged LR(1) states contributed different lookahead sets (true LALR merge) or at least one conflict cell; distinct by grammar JSON.",
		Assume: []string{"input nonterminals are pairwise distinct", "no precedence, markers or runtime lookaheads (C04/C08)", "states with an empty core are kept apart per input, and augmented items do not take part in core comparison (matches how Textmapper numbers entry/final states)"},
		Quick: 100000, Thorough: 6000000,
		Gen:   c03Gen,
		Check: c03Check,
		Pre: func(r *ev.Recorder, run func(c c03Case) *Failure) *Failure {
			if tier() != "thorough" {
				return nil
			}
			return c03Exhaustive(r, run)
		},
	}
	p.run(t)
}
