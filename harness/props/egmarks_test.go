package props

import "pgregory.net/rapid"

// egAddMarks puts state markers (.m0 .. .m2) into the alternatives of a grammar. An alternative
// whose last part can be empty (x*, x?, a nonterminal with an empty alternative) gets one at
// its very end with probability 2/3: there the range trimming of fixWhitespace has to look
// through the marker. Every other alternative gets one with probability 1/3, at the end or at
// any position behind the first part. Markers occupy no stack slot and derive nothing, so
// derivations and expected events are unchanged.
func egAddMarks(t *rapid.T, g *egSpec) {
	for _, nt := range g.NTs {
		for _, a := range nt.Alts {
			if len(a.Parts) == 0 {
				continue
			}
			pos := len(a.Parts)
			last := a.Parts[len(a.Parts)-1]
			nullableLast := last.K == "opt" || last.K == "list" && !last.Plus
			if last.K == "n" {
				for _, x := range g.NTs[last.Sym].Alts {
					nullableLast = nullableLast || altMinLen(g, x, 0) == 0
				}
			}
			if nullableLast {
				if rapid.IntRange(0, 2).Draw(t, "markBehindNullable") == 0 {
					continue
				}
			} else {
				if rapid.IntRange(0, 2).Draw(t, "marked") != 0 {
					continue
				}
				if rapid.Bool().Draw(t, "markInside") {
					pos = rapid.IntRange(1, len(a.Parts)).Draw(t, "markAt")
				}
			}
			mark := &egPart{K: "mark", Sym: rapid.IntRange(0, 2).Draw(t, "markID")}
			a.Parts = append(a.Parts[:pos:pos], append([]*egPart{mark}, a.Parts[pos:]...)...)
		}
	}
}

// egAddCmdNullable gives nonterminals that end some alternative of an earlier nonterminal an
// extra alternative that consists of a semantic action only (`| { _ = 0 }`): the nonterminal
// becomes nullable through a command, which the range trimming of fixWhitespace has to know.
func egAddCmdNullable(t *rapid.T, g *egSpec) {
	lastOf := map[int]bool{}
	for i, nt := range g.NTs {
		for _, a := range nt.Alts {
			if n := len(a.Parts); n > 1 && a.Parts[n-1].K == "n" && a.Parts[n-1].Sym > i {
				lastOf[a.Parts[n-1].Sym] = true
			}
		}
	}
	for i, nt := range g.NTs {
		if !lastOf[i] || rapid.IntRange(0, 2).Draw(t, "cmdNullable") == 0 {
			continue
		}
		nullable := false
		for _, a := range nt.Alts {
			nullable = nullable || altMinLen(g, a, 0) == 0
		}
		if !nullable {
			nt.Alts = append(nt.Alts, &egAlt{Parts: []*egPart{{K: "cmd"}}})
		}
	}
}
