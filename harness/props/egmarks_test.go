package props

import "pgregory.net/rapid"

// egAddMarks puts state markers (.m0 .. .m2) into the alternatives of a grammar. An alternative
// whose last part can be empty (x*, x?, a nonterminal with an empty alternative) gets one at
// its very end with probability 2/3: there the range trimming of fixWhitespace has to look
// through the marker. Every other alternative gets one with probability 1/3, at the end or at
// any position behind the first part. Markers occupy no stack slot and derive nothing, so
// derivations and expected events are unchanged.
func egAddMarks(t *rapid.T, g *egSpec) {
	for _, nt := range g.NTs {
		for _, a := range nt.Alts {
			if len(a.Parts) == 0 {
				continue
			}
			pos := len(a.Parts)
			last := a.Parts[len(a.Parts)-1]
			nullableLast := last.K == "opt" || last.K == "list" && !last.Plus
			if last.K == "n" {
				for _, x := range g.NTs[last.Sym].Alts {
					nullableLast = nullableLast || altMinLen(g, x, 0) == 0
				}
			}
			if nullableLast {
				if rapid.IntRange(0, 2).Draw(t, "markBehindNullable") == 0 {
					continue
				}
			} else {
				if rapid.IntRange(0, 2).Draw(t, "marked") != 0 {
					continue
				}
				if rapid.Bool().Draw(t, "markInside") {
					pos = rapid.IntRange(1, len(a.Parts)).Draw(t, "markAt")
				}
			}
			mark := &egPart{K: "mark", Sym: rapid.IntRange(0, 2).Draw(t, "markID")}
			a.Parts = append(a.Parts[:pos:pos], append([]*egPart{mark}, a.Parts[pos:]...)...)
		}
	}
}
