package props

import (
	"encoding/json"
	"fmt"
	"testing"

	"github.com/inspirer/textmapper/lalr"
	"pgregory.net/rapid"

	"verif/harness/internal/ev"
	"verif/harness/internal/oracle"
	"verif/harness/internal/tabint"
)

// C01 (tier A) — the tables Textmapper builds for a conflict-free grammar accept exactly the
// grammar's language and report errors at the first non-viable token. Oracle: Earley recogniser.
// Tier B (generated Go code) lives in c01b_test.go.

type c01Case struct {
	G        gSpec `json:"g"`
	Optimize bool  `json:"optimize"`
	DefRed   bool  `json:"default_reduce"`
	Minimize bool  `json:"minimize"`
	Seed     int   `json:"seed"`
	// Extra are explicit token strings to try in addition to the derived ones.
	Extra [][]int `json:"extra,omitempty"`
}

func c01Gen(t *rapid.T) c01Case {
	o := gDefaultOpts
	o.FamilyPercent = 70
	return c01Case{
		G:        genGSpec(t, o),
		Optimize: rapid.Bool().Draw(t, "optimize"),
		DefRed:   rapid.Bool().Draw(t, "defaultReduce"),
		Minimize: rapid.Bool().Draw(t, "minimize"),
		Seed:     rapid.IntRange(0, 1<<30).Draw(t, "seed"),
	}
}

// lcg is a tiny deterministic generator for the derived string sets (a pure function of Seed).
type lcg struct{ s uint64 }

func (l *lcg) next(n int) int {
	l.s = l.s*6364136223846793005 + 1442695040888963407
	if n <= 0 {
		return 0
	}
	return int((l.s >> 33) % uint64(n))
}

// tokenStrings builds the string set for one input: exhaustive short strings, random sentences,
// near-misses and random strings.
func tokenStrings(cfg *oracle.CFG, nt int, seed int, maxEnum int) (out [][]int, sentences int) {
	k := cfg.Terms - 1
	// exhaustive up to L
	if k > 0 {
		total := 1
		var level [][]int
		level = append(level, []int{})
		out = append(out, []int{})
		for l := 1; l <= 8; l++ {
			if total+len(level)*k > maxEnum {
				break
			}
			var nextLevel [][]int
			for _, p := range level {
				for t := 1; t <= k; t++ {
					s := append(append([]int(nil), p...), t)
					nextLevel = append(nextLevel, s)
				}
			}
			out = append(out, nextLevel...)
			total += len(nextLevel)
			level = nextLevel
		}
	} else {
		out = append(out, []int{})
	}
	rnd := &lcg{uint64(seed)*2654435761 + uint64(nt)}
	for i := 0; i < 24; i++ {
		toks, _, ok := oracle.Sentence(cfg, nt, 3+rnd.next(12), rnd.next)
		if !ok {
			break
		}
		if len(toks) > 40 {
			continue
		}
		sentences++
		out = append(out, toks)
		if k == 0 {
			continue
		}
		// near misses
		for m := 0; m < 3; m++ {
			s := append([]int(nil), toks...)
			switch rnd.next(5) {
			case 0:
				if len(s) > 0 {
					p := rnd.next(len(s))
					s = append(s[:p:p], s[p+1:]...)
				}
			case 1:
				p := rnd.next(len(s) + 1)
				s = append(s[:p:p], append([]int{1 + rnd.next(k)}, s[p:]...)...)
			case 2:
				if len(s) > 0 {
					s[rnd.next(len(s))] = 1 + rnd.next(k)
				}
			case 3:
				if len(s) > 1 {
					p := rnd.next(len(s) - 1)
					s[p], s[p+1] = s[p+1], s[p]
				}
			case 4:
				if len(s) > 0 {
					s = s[:rnd.next(len(s))]
				}
			}
			out = append(out, s)
		}
	}
	if k > 0 {
		for i := 0; i < 12; i++ {
			n := rnd.next(13)
			s := make([]int, n)
			for j := range s {
				s[j] = 1 + rnd.next(k)
			}
			out = append(out, s)
		}
	}
	return out, sentences
}

// expectOutcome computes the reference verdict for a token string.
func expectOutcome(a *oracle.Analysis, n int, eoi bool) (accept bool, errTok int) {
	viable := a.Viable
	if viable < 0 {
		return false, 0
	}
	if eoi {
		if viable == n && a.IsSentence(n) {
			return true, -1
		}
	} else if a.ShortestSentencePrefix() >= 0 {
		return true, -1
	}
	if viable < n {
		return false, viable
	}
	return false, n
}

func allReachableProductive(cfg *oracle.CFG, start int, productive []bool) bool {
	seen := map[int]bool{start: true}
	work := []int{start}
	for len(work) > 0 {
		nt := work[len(work)-1]
		work = work[:len(work)-1]
		if !productive[nt] {
			return false
		}
		for _, rl := range cfg.Rules {
			if rl.LHS != nt {
				continue
			}
			for _, s := range rl.RHS {
				if s >= cfg.Terms && !seen[s] {
					seen[s] = true
					work = append(work, s)
				}
			}
		}
	}
	return true
}

func hasLalrState(t *lalr.Tables) bool {
	for _, a := range t.Action {
		if a < -2 {
			return true
		}
	}
	return false
}

func c01Check(c c01Case, r *ev.Recorder) *Failure {
	g := c.G
	if !g.valid() || len(g.Prec) != 0 {
		return nil
	}
	lg := g.toLalr()
	t, err := lalr.Compile(lg, lalr.Options{Optimize: c.Optimize, DefaultReduce: c.DefRed, MinimizeDFA: c.Minimize})
	if err != nil {
		r.Excluded("grammar-has-conflicts")
		return nil
	}
	r.Class("conflict-free")
	cfg := g.toCFG()
	cfgName := fmt.Sprintf("optimize=%v defaultReduce=%v minimize=%v", c.Optimize, c.DefRed, c.Minimize)
	sawAccept, sawReject := false, false
	for ii, inp := range g.Inputs {
		rec := oracle.NewRecognizer(cfg, inp.NT)
		// The viable-prefix guarantee of LR parsing presupposes a reduced grammar: an
		// unproductive nonterminal reachable from the input lets every LR parser shift tokens
		// that no sentence starts with. Error positions are compared for reduced inputs only.
		reduced := allReachableProductive(cfg, inp.NT, rec.Productive)
		if !reduced {
			// Such inputs are outside the domain altogether: with an unproductive nonterminal
			// behind a nullable prefix (A: B A b; B: ;) every LR parser reduces forever.
			r.Excluded("input-with-unproductive-reachable-nonterminal")
			continue
		}
		strs, _ := tokenStrings(cfg, inp.NT, c.Seed, 1500)
		strs = append(strs, c.Extra...)
		for _, toks := range strs {
			ok := true
			for _, tk := range toks {
				if tk < 1 || tk >= g.T {
					ok = false
				}
			}
			if !ok {
				continue
			}
			an := rec.Analyze(toks)
			wantAcc, wantErr := expectOutcome(an, len(toks), inp.Eoi)
			encs := []bool{false}
			if c.Optimize {
				encs = []bool{true}
			}
			for _, opt := range encs {
				res := tabint.Run(t, tabint.Opts{Optimized: opt, NumRules: len(lg.Rules)}, ii, toks)
				r.Eval(1)
				where := fmt.Sprintf("input %s%s, tokens [%s], %s; grammar: %s", g.symName(inp.NT), map[bool]string{true: "", false: " no-eoi"}[inp.Eoi], tokensString(&g, toks), cfgName, g.String())
				if res.Overrun {
					return failf("parser-does-not-terminate", "the table-driven parser does not terminate on %s", where)
				}
				if res.Accept != wantAcc {
					return failf(fmt.Sprintf("accept-mismatch:want=%v", wantAcc), "parser accepts=%v but the string is in the language=%v (%s)", res.Accept, wantAcc, where)
				}
				if !wantAcc && reduced && res.ErrTok != wantErr {
					return failf("error-position", "syntax error reported at token %d, the first non-viable token is %d (%s)", res.ErrTok, wantErr, where)
				}
			}
			if wantAcc {
				sawAccept = true
			} else {
				sawReject = true
			}
		}
	}
	if hasLalrState(t) && sawAccept && sawReject {
		js, _ := json.Marshal(c.G)
		r.Nontrivial(string(js) + cfgName)
		r.Class("nontrivial:" + cfgName)
		if r.WantSample() {
			r.Sample(map[string]any{"grammar": g.String(), "config": cfgName, "states": t.NumStates})
		}
	}
	return nil
}

func TestC01(t *testing.T) {
	p := &prop[c01Case]{
		ID:   "C01",
		Rule: "tier A: gSpec grammars (70% mutated family seeds, 30% random; 1..3 distinct inputs, 30% no-eoi) that lalr.Compile accepts with 0 conflicts, under a drawn combination of optimizeTables/defaultReduce/minimizeDFA; for every input the tables are interpreted (internal/tabint, default or displacement encoding) on all token strings up to the length where the count stays <=1500, 24 random sentences, 3 near-misses of each (delete/insert/replace/swap/truncate) and 12 random strings; accept bit and error token index are compared with an Earley recogniser over the same rules. Non-trivial: the tables have at least one lookahead-dependent state and the string set contains both accepted and rejected strings; distinct by (grammar JSON, config).",
		Assume: []string{"tier A interprets tables; template-level decoding is exercised by the generated-code tier (C01 tier B, same evidence file when built)"},
		Quick: 8000, Thorough: 160000,
		Gen:   c01Gen,
		Check: c01Check,
	}
	p.run(t)
}
