package props

import (
	"encoding/json"
	"fmt"
	"strings"
	"testing"

	"github.com/inspirer/textmapper/lex"
	"github.com/inspirer/textmapper/shiftdfa"
	"pgregory.net/rapid"

	"verif/harness/internal/ev"
	"verif/harness/internal/respec"
)

// C24 — shift-DFA scanners agree with the lexer tables they pack (differential).

type c24Case struct {
	Rules []c09Rule               `json:"rules"`
	Named map[string]*respec.Node `json:"named,omitempty"`
	Seed  int                     `json:"seed"`
	Extra []string                `json:"extra,omitempty"`
}

func c24Gen(t *rapid.T) c24Case {
	o := reGenOpts{Bytes: true, Small: true, NoGroups: true}
	n := rapid.IntRange(1, 4).Draw(t, "nrules")
	c := c24Case{Seed: rapid.IntRange(0, 1<<30).Draw(t, "seed")}
	for i := 0; i < n; i++ {
		var re *respec.Node
		switch rapid.IntRange(0, 5).Draw(t, "shape") {
		case 0: // keyword-like literal
			re = &respec.Node{Op: "cat"}
			k := rapid.IntRange(1, 3).Draw(t, "klen")
			for j := 0; j < k; j++ {
				r := genRune(t, o, false)
				re.Sub = append(re.Sub, &respec.Node{Op: "lit", R: r, Enc: genEnc(t, r, o, false)})
			}
		case 1: // class+
			re = &respec.Node{Op: "rep", Min: 1, Max: -1, Sub: []*respec.Node{{Op: "class", Cls: genClass(t, o, 1)}}}
		case 2: // class over high bytes
			lo := rune(rapid.IntRange(0x80, 0xff).Draw(t, "hlo"))
			hi := rune(rapid.IntRange(int(lo), 0xff).Draw(t, "hhi"))
			cls := &respec.Class{Items: []respec.Item{{K: "rng", Lo: lo, Hi: hi, Enc: "x"}}}
			if rapid.Bool().Draw(t, "withAscii") {
				cls.Items = append(cls.Items, respec.Item{K: "rng", Lo: 'a', Hi: 'c'})
			}
			re = &respec.Node{Op: "rep", Min: 1, Max: -1, Sub: []*respec.Node{{Op: "class", Cls: cls}}}
		case 3: // single class
			re = &respec.Node{Op: "class", Cls: genClass(t, o, 1)}
		default:
			re = genRE(t, o, 1, true)
		}
		c.Rules = append(c.Rules, c09Rule{RE: re, Action: rapid.IntRange(1, 31).Draw(t, "token"), Prec: rapid.IntRange(0, 2).Draw(t, "prec"), SCs: []int{0}})
	}
	// Named patterns (Options.Patterns of shiftdfa.Compile): an alternation or a sequence, used
	// as `{n0}x`, `{n0}+` or `x{n0}` — a reference is one atom, whatever its text looks like.
	if rapid.IntRange(0, 2).Draw(t, "named") == 0 {
		lit := func(label string) *respec.Node {
			return &respec.Node{Op: "lit", R: rune("abcxyz01"[rapid.IntRange(0, 7).Draw(t, label)])}
		}
		var def *respec.Node
		if rapid.Bool().Draw(t, "namedAlt") {
			def = &respec.Node{Op: "alt", Sub: []*respec.Node{lit("na"), {Op: "cat", Sub: []*respec.Node{lit("nb"), lit("nc")}}}}
		} else {
			def = &respec.Node{Op: "cat", Sub: []*respec.Node{lit("na"), {Op: "class", Cls: genClass(t, o, 1)}}}
		}
		c.Named = map[string]*respec.Node{"n0": def}
		ref := &respec.Node{Op: "ref", Name: "n0"}
		var use *respec.Node
		switch rapid.IntRange(0, 2).Draw(t, "namedUse") {
		case 0:
			use = &respec.Node{Op: "cat", Sub: []*respec.Node{ref, lit("nd")}}
		case 1:
			use = &respec.Node{Op: "rep", Min: 1, Max: -1, Sub: []*respec.Node{ref}}
		default:
			use = &respec.Node{Op: "cat", Sub: []*respec.Node{lit("nd"), ref, {Op: "rep", Min: 0, Max: 1, Sub: []*respec.Node{lit("ne")}}}}
		}
		c.Rules[rapid.IntRange(0, len(c.Rules)-1).Draw(t, "namedRule")].RE = use
	}
	return c
}

func c24Check(c c24Case, r *ev.Recorder) *Failure {
	if len(c.Rules) == 0 {
		return nil
	}
	for _, rl := range c.Rules {
		if rl.RE == nil || rl.Action < 1 || rl.Action > 31 {
			return nil
		}
		if reMinLen(rl.RE, c.Named, 0) == 0 {
			return nil
		}
	}
	cc := c09Case{Rules: c.Rules, Named: c.Named, Bytes: true, NSC: 1, Seed: c.Seed}
	for i := range cc.Rules {
		cc.Rules[i].SCs = []int{0}
	}
	tbl, err := cc.compile(false)
	if err != nil {
		switch {
		case strings.Contains(err.Error(), "Needs backtracking"):
			r.Excluded("lex-compile-error:needs-backtracking")
		case strings.Contains(err.Error(), "two rules are identical"):
			r.Excluded("lex-compile-error:identical-rules")
		default:
			r.Excluded("lex-compile-error:other")
		}
		return nil
	}
	sc, err := shiftdfa.Pack(tbl)
	if err != nil {
		r.Excluded("pack-rejects:" + err.Error()[:min(len(err.Error()), 28)])
		return nil
	}
	// alphabet: symbols of the rules + representatives
	al := map[rune]bool{}
	for _, rl := range c.Rules {
		reAlphabetOf(rl.RE, c.Named, al, 0)
	}
	var alpha []byte
	for _, x := range sortedRunes(al) {
		if x >= 0 && x <= 0xff && len(alpha) < 5 {
			alpha = append(alpha, byte(x))
		}
	}
	hasHigh := false
	for _, b := range alpha {
		if b >= 0x80 {
			hasHigh = true
		}
	}
	if !hasHigh {
		alpha = append(alpha, 0xc3)
	}
	alpha = append(alpha, 'q')
	var inputs []string
	var rec func(prefix []byte)
	rec = func(prefix []byte) {
		inputs = append(inputs, string(prefix))
		if len(prefix) == 4 {
			return
		}
		for _, b := range alpha {
			rec(append(append([]byte(nil), prefix...), b))
		}
	}
	rec(nil)
	rnd := &lcg{uint64(c.Seed)}
	for i := 0; i < 60; i++ {
		n := 1 + rnd.next(10)
		b := make([]byte, n)
		for j := range b {
			switch rnd.next(3) {
			case 0:
				b[j] = alpha[rnd.next(len(alpha))]
			case 1:
				b[j] = byte(0x80 + rnd.next(0x80))
			default:
				b[j] = byte(rnd.next(256))
			}
		}
		inputs = append(inputs, string(b))
	}
	inputs = append(inputs, c.Extra...)
	// the compiler's front door: the same rules as text, named patterns through Options.Patterns
	var textRules []shiftdfa.Rule
	for i, text := range cc.texts() {
		textRules = append(textRules, shiftdfa.Rule{Pattern: text, Token: c.Rules[i].Action, Precedence: c.Rules[i].Prec})
	}
	patterns := map[string]string{}
	for name, n := range c.Named {
		patterns[name] = respec.Render(n)
	}
	sc2, err := shiftdfa.Compile(textRules, shiftdfa.Options{Patterns: patterns})
	if err != nil {
		r.Class("Compile-rejects-what-Pack-accepts")
		sc2 = nil
	} else if len(c.Named) > 0 {
		r.Class("compiled-with-named-patterns")
	}
	high := false
	for _, in := range inputs {
		ws, wa := tbl.Scan(0, in)
		gs, gt := sc.Scan(in)
		r.Eval(1)
		if gs != ws || int(gt) != wa {
			return failf("scan-differs", "input %q: shiftdfa.Scanner.Scan = (%d, %d), lex.Tables.Scan = (%d, %d); rules: %s", in, gs, gt, ws, wa, cc.describe())
		}
		if sc2 != nil {
			gs, gt := sc2.Scan(in)
			r.Eval(1)
			if gs != ws || int(gt) != wa {
				return failf("compiled-scan-differs", "input %q: the scanner of shiftdfa.Compile returns (%d, %d), lex.Tables.Scan = (%d, %d); rules: %s", in, gs, gt, ws, wa, cc.describe())
			}
		}
		if strings.IndexFunc(in, func(r rune) bool { return r >= 0x80 }) >= 0 {
			high = true
		}
	}
	states := len(tbl.Dfa) / tbl.NumSymbols
	usesHigh := false
	for x := range al {
		if x >= 0x80 {
			usesHigh = true
		}
	}
	if usesHigh {
		r.Class("rules-mention-bytes>=0x80")
	} else {
		r.Class("ascii-only-rules")
	}
	if high && (states >= 4 || usesHigh) {
		js, _ := json.Marshal(c.Rules)
		r.Nontrivial(string(js))
		if r.WantSample() {
			r.Sample(map[string]any{"rules": cc.describe(), "dfa_states": states})
		}
	}
	_ = fmt.Sprint
	var _ *lex.Tables = tbl
	return nil
}

func lastLine(s string) string {
	if i := strings.LastIndex(s, ": "); i >= 0 {
		return s[i+2:]
	}
	return s
}

func TestC24(t *testing.T) {
	p := &prop[c24Case]{
		ID:   "C24",
		Rule: "byte-mode rule sets of 1..4 rules (literals, class+, classes over bytes 0x80..0xff written with \\xHH, small random patterns), tokens 1..31, priorities 0..2, compiled by lex.Compile(scanBytes, no backtracking) and packed with shiftdfa.Pack; kept when both accept; in a third of the cases one rule uses a named pattern (an alternation or a sequence, as `{n0}x`, `{n0}+`, `x{n0}y?`). The same rules are also given as text to shiftdfa.Compile (named patterns through Options.Patterns). Inputs: all strings of length <=4 over the rules' first five symbols plus one byte >=0x80 and one unrelated byte, and 60 random byte strings (1/3 of the bytes >= 0x80). Scanner.Scan of both scanners must equal Tables.Scan(0, .) as (size, token). Non-trivial: inputs contain bytes >= 0x80 and the DFA has >=4 states or the rules mention such bytes; distinct by rules JSON.",
		Quick: 15000, Thorough: 900000,
		Gen:   c24Gen,
		Check: c24Check,
	}
	p.run(t)
}
