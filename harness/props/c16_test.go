package props

import (
	"encoding/json"
	"fmt"
	"strings"
	"testing"

	"pgregory.net/rapid"

	"github.com/inspirer/textmapper/grammar"
	"verif/harness/internal/batch"
	"verif/harness/internal/ev"
)

// C16 — semantic action references bind to the right symbols. Every action of a generated
// grammar logs what its $-references evaluate to; the expected log is computed from the known
// derivation of the sentence with a model of the expanded rule (which symbols are on the stack,
// where they start and end). Oracle: exact comparison of the two logs.

type c16Ref struct {
	Kind string `json:"kind"`          // ent | firstlast | left
	Ent  int    `json:"ent,omitempty"` // index into the scope's entities (source order)
	Via  string `json:"via,omitempty"` // alias | name | num
	Val  bool   `json:"val,omitempty"` // also observe the value
	G    string `json:"g,omitempty"`   // kind grp: the alias of a parenthesised (optional) group
}

type c16Act struct {
	Refs []c16Ref `json:"refs"`
}

type c16Case struct {
	G     egSpec   `json:"g"`
	Acts  []c16Act `json:"acts"` // cmd parts carry Sym = index; alternatives carry Act = index+1
	Space bool     `json:"space"`
	Opt   bool     `json:"optimize"`
	Seed  int      `json:"seed"`
}

// scopeEntities lists the positioned entities of a rule scope in source order: symbol
// references, sets and lists (a list is one entity; its element is a scope of its own).
func scopeEntities(a *egAlt, out *[]*egPart) {
	for _, p := range a.Parts {
		switch p.K {
		case "t", "n", "set", "list":
			*out = append(*out, p)
		case "opt", "grp":
			for _, s := range p.Alts {
				scopeEntities(s, out)
			}
		}
	}
}

type c16Gen struct {
	t *rapid.T
	c *c16Case
	// markers: this grammar gets state markers and only end-of-rule actions (the compiler
	// rejects mid-rule actions in rules with state markers)
	markers bool
	plain   map[*egPart]bool
	// grps are the aliases put on whole groups `(a b?)[gN]`, `(a | b c)[gN]?`; a command that sees
	// the alias (entries -1-k in its by-name list) may log ${gN.offset} and ${gN.endoffset}: the
	// span from the first to the last member that is present in the expansion.
	grps []string
}

// refsFor draws references for a command that sees `visible` by name (entity indices) and all
// entities below `upto` by number.
func (e *c16Gen) refsFor(ents []*egPart, byName []int, upto int, final bool, uniqueNT map[int]bool) []c16Ref {
	var refs []c16Ref
	n := rapid.IntRange(0, 3).Draw(e.t, "nrefs")
	for i := 0; i < n && upto > 0; i++ {
		r := c16Ref{Kind: "ent"}
		if len(byName) > 0 && rapid.Bool().Draw(e.t, "byName") {
			r.Ent = byName[rapid.IntRange(0, len(byName)-1).Draw(e.t, "ent")]
			if r.Ent < 0 {
				refs = append(refs, c16Ref{Kind: "grp", G: e.grps[-1-r.Ent]})
				continue
			}
			r.Via = "alias"
			p := ents[r.Ent]
			if p.K == "n" && uniqueNT[p.Sym] && p.Alias == "" && rapid.Bool().Draw(e.t, "viaName") {
				r.Via = "name"
			} else if p.Alias == "" {
				p.Alias = fmt.Sprintf("r%d", r.Ent)
			}
		} else {
			r.Ent = rapid.IntRange(0, upto-1).Draw(e.t, "entNum")
			r.Via = "num"
		}
		if k := ents[r.Ent].K; k == "t" || k == "n" {
			r.Val = rapid.IntRange(0, 3).Draw(e.t, "val") > 0
		}
		refs = append(refs, r)
	}
	for _, v := range byName {
		// group aliases are rare: every command that sees one uses it every second time
		if v < 0 && rapid.Bool().Draw(e.t, "groupRef") {
			refs = append(refs, c16Ref{Kind: "grp", G: e.grps[-1-v]})
		}
	}
	if rapid.IntRange(0, 2).Draw(e.t, "firstlast") == 0 {
		refs = append(refs, c16Ref{Kind: "firstlast"})
	}
	if final && rapid.IntRange(0, 2).Draw(e.t, "left") == 0 {
		refs = append(refs, c16Ref{Kind: "left"})
	}
	return refs
}

func (e *c16Gen) newAct(refs []c16Ref) int {
	e.c.Acts = append(e.c.Acts, c16Act{Refs: refs})
	return len(e.c.Acts) - 1
}

// scope processes one rule scope (a top-level alternative or a list element).
func (e *c16Gen) scope(a *egAlt, top bool) {
	var ents []*egPart
	scopeEntities(a, &ents)
	uniqueNT := map[int]bool{}
	cnt := map[int]int{}
	for _, p := range ents {
		if p.K == "n" {
			cnt[p.Sym]++
		}
	}
	for s, c := range cnt {
		uniqueNT[s] = c == 1
	}
	seen := 0 // entities passed so far (source order)
	var walk func(a *egAlt, nested bool) []int
	walk = func(a *egAlt, nested bool) []int {
		var local []int // entities visible by name inside this (nested) rule context
		var parts []*egPart
		lastCmd := true // no command in front of the first part
		for _, p := range a.Parts {
			if !lastCmd && !e.markers && rapid.IntRange(0, 4).Draw(e.t, "cmd") == 0 {
				id := e.newAct(e.refsFor(ents, local, seen, false, uniqueNT))
				parts = append(parts, &egPart{K: "cmd", Sym: id})
			}
			lastCmd = false
			if !nested && e.markers && rapid.IntRange(0, 5).Draw(e.t, "marker") == 0 {
				// a state marker: present in the rule, absent from the parser stack
				parts = append(parts, &egPart{K: "mark", Sym: rapid.IntRange(0, 2).Draw(e.t, "markerID")})
			}
			parts = append(parts, p)
			switch p.K {
			case "t", "n", "set":
				local = append(local, seen)
				seen++
			case "list":
				if !e.plain[p] { // twin lists stay free of element actions (they must be equal)
					e.scope(p.Alts[0], false)
				}
				local = append(local, seen)
				seen++
			case "opt", "grp":
				simple := p.K == "opt" && len(p.Alts[0].Parts) == 1 && p.Alts[0].Parts[0].simple() && p.Alts[0].Node == ""
				for _, s := range p.Alts {
					if simple {
						local = append(local, seen)
						seen++
						continue
					}
					local = append(local, walk(s, true)...)
				}
				if !simple && rapid.IntRange(0, 1).Draw(e.t, "groupAlias") == 0 {
					// visible behind the group only: the alias is registered when the group ends
					p.Alias = fmt.Sprintf("g%d", len(e.grps))
					local = append(local, -1-len(e.grps))
					e.grps = append(e.grps, p.Alias)
				}
			}
		}
		a.Parts = parts
		return local
	}
	local := walk(a, false)
	if top {
		a.Act = 1 + e.newAct(e.refsFor(ents, local, seen, true, uniqueNT))
	} else if rapid.IntRange(0, 2).Draw(e.t, "elemFinal") == 0 {
		id := e.newAct(e.refsFor(ents, local, seen, false, uniqueNT))
		a.Parts = append(a.Parts, &egPart{K: "cmd", Sym: id})
	}
}

func c16GenCase(t *rapid.T) c16Case {
	c := c16Case{
		G:     genEG(t, egGenOpts{MaxNT: 4, Terms: 6, NodePct: 0, Lists: true, MaxDepth: 2, NestedNode: false}),
		Space: rapid.Bool().Draw(t, "space"),
		Opt:   rapid.Bool().Draw(t, "optimize"),
		Seed:  rapid.IntRange(0, 1<<30).Draw(t, "seed"),
	}
	c.G.Inputs = c.G.Inputs[:1]
	e := &c16Gen{t: t, c: &c, markers: rapid.IntRange(0, 3).Draw(t, "markers") == 0, plain: map[*egPart]bool{}}
	// The same list of plain terminals in two rules: Textmapper extracts one nonterminal for both
	// uses; references to the second use have to work like references to the first.
	if rapid.IntRange(0, 2).Draw(t, "twinList") == 0 {
		var lists []*egPart
		var owner []int
		for i, nt := range c.G.NTs {
			for _, a := range nt.Alts {
				for _, p := range a.Parts {
					plain := p.K == "list"
					if plain {
						for _, ep := range p.Alts[0].Parts {
							plain = plain && ep.K == "t"
						}
					}
					if plain {
						lists = append(lists, p)
						owner = append(owner, i)
					}
				}
			}
		}
		if len(lists) > 0 {
			k := rapid.IntRange(0, len(lists)-1).Draw(t, "twinOf")
			var cp egPart
			js, _ := json.Marshal(lists[k])
			json.Unmarshal(js, &cp)
			nt := c.G.NTs[rapid.IntRange(0, owner[k]).Draw(t, "twinNT")]
			a := nt.Alts[rapid.IntRange(0, len(nt.Alts)-1).Draw(t, "twinAlt")]
			a.Parts = append(a.Parts, &egPart{K: "t", Sym: rapid.IntRange(1, c.G.T-1).Draw(t, "twinGuard")}, &cp)
			e.plain[lists[k]], e.plain[&cp] = true, true
		}
	}
	for _, nt := range c.G.NTs {
		nt.Node = ""
		for _, a := range nt.Alts {
			a.Node = ""
			e.scope(a, true)
		}
	}
	return c
}

// scopeOf finds, for every action id, the entities of its scope and whether it is the final
// action of a top-level alternative (with that alternative's global index).
type c16ActInfo struct {
	ents  []*egPart
	final bool
	altID int
	typ   string // Go type of the alternative's nonterminal (final actions)
}

// c16NTType is the value type of the i-th nonterminal: three integer types, so that a reference
// resolved with the type of a different symbol fails its type assertion and shows up as 0.
func c16NTType(i int) string { return []string{"int", "int64", "uint32"}[i%3] }

func (c *c16Case) actInfo() map[int]*c16ActInfo {
	info := map[int]*c16ActInfo{}
	altID := 0
	curNT := 0
	var scope func(a *egAlt, top bool)
	scope = func(a *egAlt, top bool) {
		var ents []*egPart
		scopeEntities(a, &ents)
		var walk func(a *egAlt)
		walk = func(a *egAlt) {
			for _, p := range a.Parts {
				switch p.K {
				case "cmd":
					info[p.Sym] = &c16ActInfo{ents: ents}
				case "list":
					scope(p.Alts[0], false)
				case "opt", "grp":
					for _, s := range p.Alts {
						walk(s)
					}
				}
			}
		}
		walk(a)
		if top {
			altID++
			if a.Act > 0 {
				info[a.Act-1] = &c16ActInfo{ents: ents, final: true, altID: altID, typ: c16NTType(curNT)}
			}
		}
	}
	for ni, nt := range c.G.NTs {
		curNT = ni
		for _, a := range nt.Alts {
			scope(a, true)
		}
	}
	return info
}

func entPos(ents []*egPart, p *egPart) int {
	for i, x := range ents {
		if x == p {
			return i
		}
	}
	return -1
}

func (c *c16Case) actionText(id int, info map[int]*c16ActInfo) string {
	ai := info[id]
	var sb strings.Builder
	sb.WriteString("{ ")
	if ai.final {
		fmt.Fprintf(&sb, "$$ = %s(%d + ${left().offset}); ", ai.typ, ai.altID*100000)
	}
	for j, r := range c.Acts[id].Refs {
		switch r.Kind {
		case "firstlast":
			fmt.Fprintf(&sb, "verifObs(%d, %d, 0, ${first().offset}, ${last().endoffset}); ", id, j)
		case "left":
			fmt.Fprintf(&sb, "verifObs(%d, %d, 0, ${left().offset}, ${left().endoffset}); ", id, j)
		case "grp":
			fmt.Fprintf(&sb, "verifObs(%d, %d, 0, ${%s.offset}, ${%s.endoffset}); ", id, j, r.G, r.G)
		default:
			if r.Ent >= len(ai.ents) {
				continue
			}
			p := ai.ents[r.Ent]
			name := fmt.Sprint(r.Ent)
			switch r.Via {
			case "alias":
				name = p.Alias
			case "name":
				name = c.G.NTs[p.Sym].Name
			}
			val := "0"
			if r.Val {
				val = "${" + name + "}"
				if r.Via != "num" && id%2 == 0 {
					val = "$" + name
				}
			}
			fmt.Fprintf(&sb, "verifObs(%d, %d, %s, ${%s.offset}, ${%s.endoffset}); ", id, j, val, name, name)
		}
	}
	sb.WriteString("}")
	return sb.String()
}

func (c *c16Case) render(name string) string {
	info := c.actInfo()
	egCmdText = func(id int) string { return c.actionText(id, info) }
	defer func() { egCmdText = nil }()
	opts := map[string]string{"eventBased": "false", "optimizeTables": fmt.Sprint(c.Opt),
		"__termType": " {int}", "__termAction": " { $$ = l.tokenOffset }", "__ntType": " {int}"}
	for i, nt := range c.G.NTs {
		opts["__ntType:"+nt.Name] = " {" + c16NTType(i) + "}"
	}
	pre := ""
	if c.Seed%3 == 0 {
		// a template parameter anywhere in the grammar sends every rule through instantiation
		pre = "%flag Unused = false;\n"
	}
	suffix := func(nt, alt int) string {
		a := c.G.NTs[nt].Alts[alt]
		if a.Act > 0 {
			return " " + c.actionText(a.Act-1, info)
		}
		return ""
	}
	return c.G.render(name, opts, c.Space, pre, suffix)
}

func actionAdapter(g *grammar.Grammar, files map[string]string) map[string]string {
	var sb strings.Builder
	fmt.Fprintf(&sb, "package %s\n\nimport (\n\t\"fmt\"\n\t\"strings\"\n)\n\n", g.Name)
	sb.WriteString("var verifLog strings.Builder\n\nfunc verifObs(k, j int, val interface{}, off, end int) {\n\tfmt.Fprintf(&verifLog, \"%d:%d:%v:%d:%d;\", k, j, val, off, end)\n}\n\n")
	sb.WriteString("func VerifRun(entry int, src string, arg string) string {\n\tverifLog.Reset()\n\tvar l Lexer\n\tl.Init(src)\n\tvar p Parser\n\tp.Init()\n\tvar err error\n")
	for _, inp := range g.Parser.Inputs {
		if inp.Synthetic {
			continue
		}
		method := "Parse"
		if g.Parser.HasMultipleUserInputs() {
			method += g.NontermID(inp.Nonterm)
		}
		if g.Parser.Nonterms[inp.Nonterm].Type != "" && g.Parser.HasInputAssocValues() {
			fmt.Fprintf(&sb, "\tvar res interface{}\n\tres, err = p.%s(&l)\n\tfmt.Fprintf(&verifLog, \"result:%%v;\", res)\n", method)
		} else {
			fmt.Fprintf(&sb, "\terr = p.%s(&l)\n", method)
		}
		break
	}
	sb.WriteString("\tif err == nil {\n\t\treturn verifLog.String() + \"|ok\"\n\t}\n\tif se, ok := err.(SyntaxError); ok {\n\t\treturn verifLog.String() + fmt.Sprintf(\"|err %d %d\", se.Offset, se.Endoffset)\n\t}\n\treturn verifLog.String() + \"|other \" + err.Error()\n}\n")
	return map[string]string{"verif_export.go": sb.String()}
}

// ---------- the model

type c16Sym struct {
	off, end int
	val      string
}

type c16Scope struct {
	syms    []c16Sym
	present map[*egPart]int
	// trailing marks the commands that no symbol follows in this instance of the scope
	trailing map[*dKid]bool
}

// newC16Scope prepares the scope of one rule instance (top-level alternative or list element).
func newC16Scope(n *dNode) *c16Scope {
	sc := &c16Scope{present: map[*egPart]int{}, trailing: map[*dKid]bool{}}
	var flat []*dKid
	var walk func(n *dNode)
	walk = func(n *dNode) {
		for _, k := range n.kids {
			switch k.part.K {
			case "opt", "grp":
				if k.sub != nil {
					walk(k.sub)
				}
			case "mark":
				// state markers take no stack slot
			default:
				flat = append(flat, k)
			}
		}
	}
	walk(n)
	for i := len(flat) - 1; i >= 0 && flat[i].part.K == "cmd"; i-- {
		sc.trailing[flat[i]] = true
	}
	// Adjacent commands (an optional part between them is absent) are joined into one mid-rule
	// nonterminal: only the last command of a run puts a symbol on the stack.
	for i := 0; i+1 < len(flat); i++ {
		if flat[i].part.K == "cmd" && flat[i+1].part.K == "cmd" {
			sc.trailing[flat[i]] = true
		}
	}
	return sc
}

type c16Model struct {
	c    *c16Case
	info map[int]*c16ActInfo
	offs []int // token start offsets, offs[len] = offset of the end-of-input token
	log  strings.Builder
	used map[string]int // statistics
	grps map[string]*egPart
}

// groupParts maps the aliases of groups to their parts.
func (c *c16Case) groupParts() map[string]*egPart {
	out := map[string]*egPart{}
	var walk func(a *egAlt)
	walk = func(a *egAlt) {
		for _, p := range a.Parts {
			if (p.K == "opt" || p.K == "grp") && p.Alias != "" {
				out[p.Alias] = p
			}
			for _, s := range p.Alts {
				walk(s)
			}
		}
	}
	for _, nt := range c.G.NTs {
		for _, a := range nt.Alts {
			walk(a)
		}
	}
	return out
}

func (m *c16Model) span(sc *c16Scope, next int) (int, int) {
	if len(sc.syms) == 0 {
		return next, next
	}
	return sc.syms[0].off, sc.syms[len(sc.syms)-1].end
}

func (m *c16Model) emit(id int, sc *c16Scope, lhsOff, lhsEnd int) {
	ai := m.info[id]
	for j, r := range m.c.Acts[id].Refs {
		switch r.Kind {
		case "firstlast":
			f, l := -1, -1
			if len(sc.syms) > 0 {
				f, l = sc.syms[0].off, sc.syms[len(sc.syms)-1].end
			}
			fmt.Fprintf(&m.log, "%d:%d:0:%d:%d;", id, j, f, l)
			m.used["firstlast"]++
		case "left":
			fmt.Fprintf(&m.log, "%d:%d:0:%d:%d;", id, j, lhsOff, lhsEnd)
			m.used["left"]++
		case "grp":
			// the positioned members of the group in source order (a list is one member)
			var members []*egPart
			for _, a := range m.grps[r.G].Alts {
				scopeEntities(a, &members)
			}
			f, l := -1, -1
			for _, p := range members {
				if idx, ok := sc.present[p]; ok {
					if f < 0 {
						f = sc.syms[idx].off
					}
					l = sc.syms[idx].end
				}
			}
			fmt.Fprintf(&m.log, "%d:%d:0:%d:%d;", id, j, f, l)
			if f < 0 {
				m.used["absent:group"]++
			} else {
				m.used["present:group"]++
			}
		default:
			if r.Ent >= len(ai.ents) {
				continue
			}
			p := ai.ents[r.Ent]
			idx, ok := sc.present[p]
			val := "0"
			if !ok {
				if r.Val {
					val = "<nil>"
				}
				fmt.Fprintf(&m.log, "%d:%d:%s:-1:-1;", id, j, val)
				m.used["absent:"+r.Via]++
				continue
			}
			s := sc.syms[idx]
			if r.Val {
				val = s.val
			}
			fmt.Fprintf(&m.log, "%d:%d:%s:%d:%d;", id, j, val, s.off, s.end)
			m.used["present:"+r.Via+":"+p.K]++
		}
	}
}

// walk processes the parts of one (possibly nested) alternative instance within scope sc.
// listElem marks the alternative of a list element (a trailing command is its final action).
func (m *c16Model) walk(n *dNode, sc *c16Scope, listElem bool) {
	for _, k := range n.kids {
		switch k.part.K {
		case "t", "set":
			o := m.offs[k.tok]
			sc.present[k.part] = len(sc.syms)
			sc.syms = append(sc.syms, c16Sym{o, o + 1, fmt.Sprint(o)})
		case "n":
			off, end, val := m.rule(k.sub)
			sc.present[k.part] = len(sc.syms)
			sc.syms = append(sc.syms, c16Sym{off, end, val})
		case "opt", "grp":
			if k.sub != nil {
				m.walk(k.sub, sc, false)
			}
		case "list":
			off, end := m.offs[k.lo], m.offs[k.lo]
			for ei, el := range k.elems {
				esc := newC16Scope(el)
				m.walk(el, esc, true)
				o, e := m.span(esc, m.offs[el.lo])
				if ei == 0 {
					off = o
				}
				end = e
			}
			sc.present[k.part] = len(sc.syms)
			sc.syms = append(sc.syms, c16Sym{off, end, "list"})
		case "cmd":
			m.emit(k.part.Sym, sc, 0, 0)
			if sc.trailing[k] {
				// no symbol follows in this expansion: the code runs with the rule's final action
				continue
			}
			o := m.offs[k.lo]
			sc.syms = append(sc.syms, c16Sym{o, o, "midrule"})
		}
	}
}

// rule processes an instance of a top-level alternative and returns its span and value.
func (m *c16Model) rule(n *dNode) (int, int, string) {
	sc := newC16Scope(n)
	m.walk(n, sc, false)
	off, end := m.span(sc, m.offs[n.lo])
	val := "0"
	if n.alt.Act > 0 {
		ai := m.info[n.alt.Act-1]
		val = fmt.Sprint(ai.altID*100000 + off)
		m.emit(n.alt.Act-1, sc, off, end)
	}
	return off, end, val
}

func c16Check(c c16Case, res *batch.Result, run runFunc, r *ev.Recorder) *Failure {
	info := c.actInfo()
	desc := func() string { return c.render("g") }
	stats := map[string]int{}
	for s := 0; s < 40; s++ {
		dn, toks := c.G.derive(c.G.Inputs[0].NT, c.Seed+s*17, 3+s%9)
		if len(toks) > 60 {
			continue
		}
		src, offs := egSource(toks, c.Space, c.Seed+s)
		m := &c16Model{c: &c, info: info, offs: offs, used: stats, grps: c.groupParts()}
		_, _, val := m.rule(dn)
		want := m.log.String() + "result:" + val + ";|ok"
		out, pan, err := c19Run(run, 0, src, "")
		r.Eval(1)
		where := fmt.Sprintf("sentence %q; grammar:\n%s", src, desc())
		if err != nil {
			return failf("driver-hangs-or-dies", "%v on %s", err, where)
		}
		if pan != "" {
			return failf("parser-panics", "%s on %s", oneLine(pan, 400), where)
		}
		if !strings.HasSuffix(out, "|ok") {
			return failf("sentence-rejected", "the parser answers %q on a %s", out[strings.LastIndex(out, "|")+1:], where)
		}
		if out != want {
			g, w := strings.Split(out, ";"), strings.Split(want, ";")
			i := 0
			for i < len(g) && i < len(w) && g[i] == w[i] {
				i++
			}
			gi, wi := "<end of log>", "<end of log>"
			if i < len(g) {
				gi = g[i]
			}
			if i < len(w) {
				wi = w[i]
			}
			key := "wrong-binding"
			if strings.HasPrefix(wi, "result:") || strings.HasPrefix(gi, "result:") {
				key = "wrong-result"
			}
			return failf(key, "observation #%d (action:ref:value:offset:endoffset) is %q, expected %q; full log %q, expected %q; %s", i, gi, wi, out, want, where)
		}
	}
	kinds := 0
	for k, v := range stats {
		if v > 0 {
			r.ClassN("ref:"+k, v)
			kinds++
		}
	}
	if kinds >= 3 {
		js, _ := json.Marshal(c)
		r.Nontrivial(string(js))
		if r.WantSample() {
			r.Sample(map[string]any{"grammar": desc(), "observations": stats})
		}
	}
	return nil
}

func TestC16(t *testing.T) {
	p := &batchProp[c16Case]{
		ID:        "C16",
		Rule:      "grammars in extended notation (optional parts, nested choices, lists with/without separators; no AST annotations) where every terminal has type int and value = its start offset, every nonterminal has type int; every top-level alternative ends with an action `$$ = <alt id>*100000 + ${left().offset}` and generated mid-rule actions are placed between parts of top-level and nested alternatives and inside / at the end of list elements. Each action logs up to 3 references to entities of its rule scope — by alias `part[rN]` ($rN, ${rN}, ${rN.offset}, ${rN.endoffset}), by nonterminal name when unique, or by number ($N, ${N.offset}; any preceding position, including symbols of other alternatives); half of the parenthesised groups and optional groups carry an alias `(a b?)[gN]` / `(a | b c)[gN]?` and the commands behind them log ${gN.offset}/${gN.endoffset} (span from the first to the last member present in the expansion, -1/-1 when none is) — plus ${first().offset}/${last().endoffset} and, in final actions, ${left().offset}/${left().endoffset}. 40 derived sentences per grammar (with/without skipped spaces); the log must equal the log predicted from the derivation: present symbol -> its value and [offset,endoffset) on the stack (empty nonterminals and mid-rule nonterminals sit at the next token), absent symbol -> nil / -1. Non-trivial: a grammar whose sentences exercised at least 3 different kinds of (presence, reference form, symbol kind).",
		Assume:    []string{"grammars rejected by the compiler (conflicts caused by mid-rule nonterminals etc.) are outside the domain and counted"},
		Quick:     128, Thorough: 1920, BatchSize: 48,
		Gen:       c16GenCase,
		Unit: func(c c16Case, name string) (batch.Unit, bool) {
			return batch.Unit{Name: name, TM: c.render(name), Adapter: actionAdapter}, true
		},
		Check: c16Check,
	}
	p.run(t)
}
