package props

import (
	"encoding/json"
	"fmt"
	"sort"
	"testing"

	"github.com/inspirer/textmapper/util/container"
	"github.com/inspirer/textmapper/util/set"
	"pgregory.net/rapid"

	"verif/harness/internal/ev"
)

// C25 — integer set algebra and set-equation closure are exact.
//
// Oracle: a 17-bit mask: bits 0..15 are the integers 0..15, bit 16 stands for "every other
// integer". Systems are solved SCC by SCC in dependency order with Kleene iteration from the
// empty set; a complement is self-dependent iff its operand can reach it.

const c25U = 12 // elements are drawn from [0,c25U)
const c25All = uint32(1<<17 - 1)

type c25Set struct {
	Inv   bool  `json:"inv"`
	Elems []int `json:"elems"`
}

type c25Node struct {
	Op    string `json:"op"` // "union" | "inter" | "compl"
	Base  []int  `json:"base,omitempty"`
	Edges []int  `json:"edges,omitempty"`
}

type c25Case struct {
	Kind  string    `json:"kind"` // "algebra" | "system"
	A     c25Set    `json:"a"`
	B     c25Set    `json:"b"`
	Reuse int       `json:"reuse"`
	Nodes []c25Node `json:"nodes,omitempty"`
}

func (s c25Set) intSet() container.IntSet {
	e := append([]int(nil), s.Elems...)
	sort.Ints(e)
	return container.IntSet{Inverse: s.Inv, Set: e}
}

func c25Mask(s container.IntSet) (uint32, bool) {
	var m uint32
	prev := -1
	for _, v := range s.Set {
		if v < 0 || v >= 16 || v <= prev {
			return 0, false // unsorted / duplicate / outside the modelled universe
		}
		prev = v
		m |= 1 << uint(v)
	}
	if s.Inverse {
		m = c25All &^ m
	}
	return m, true
}

func c25SetGen(t *rapid.T, label string) c25Set {
	n := rapid.IntRange(0, 6).Draw(t, label+"n")
	seen := map[int]bool{}
	var e []int
	for i := 0; i < n; i++ {
		v := rapid.IntRange(0, c25U-1).Draw(t, label+"e")
		if !seen[v] {
			seen[v] = true
			e = append(e, v)
		}
	}
	sort.Ints(e)
	return c25Set{Inv: rapid.Bool().Draw(t, label+"inv"), Elems: e}
}

func c25Gen(t *rapid.T) c25Case {
	if rapid.IntRange(0, 9).Draw(t, "kind") < 3 {
		return c25Case{Kind: "algebra", A: c25SetGen(t, "a"), B: c25SetGen(t, "b"), Reuse: rapid.IntRange(0, 8).Draw(t, "reuse")}
	}
	n := rapid.IntRange(1, 8).Draw(t, "nodes")
	c := c25Case{Kind: "system"}
	for i := 0; i < n; i++ {
		op := "union"
		if i > 0 {
			switch rapid.IntRange(0, 9).Draw(t, "op") {
			case 0, 1, 2:
				op = "inter"
			case 3, 4:
				op = "compl"
			}
		}
		nd := c25Node{Op: op}
		switch op {
		case "union":
			nd.Base = c25SetGen(t, "base").Elems
			if len(nd.Base) > 3 {
				nd.Base = nd.Base[:3]
			}
		case "inter":
			k := rapid.IntRange(1, 3).Draw(t, "k")
			for j := 0; j < k; j++ {
				nd.Edges = append(nd.Edges, rapid.IntRange(0, i-1).Draw(t, "iedge"))
			}
		case "compl":
			nd.Edges = []int{rapid.IntRange(0, i-1).Draw(t, "cedge")}
		}
		c.Nodes = append(c.Nodes, nd)
	}
	// Include edges of union nodes may point anywhere (this is how cycles arise).
	for i := range c.Nodes {
		if c.Nodes[i].Op != "union" {
			continue
		}
		k := rapid.IntRange(0, 3).Draw(t, "uk")
		for j := 0; j < k; j++ {
			c.Nodes[i].Edges = append(c.Nodes[i].Edges, rapid.IntRange(0, n-1).Draw(t, "uedge"))
		}
	}
	return c
}

func c25Check(c c25Case, r *ev.Recorder) *Failure {
	switch c.Kind {
	case "algebra":
		return c25Algebra(c, r)
	case "system":
		return c25System(c, r)
	}
	return nil
}

func c25Algebra(c c25Case, r *ev.Recorder) *Failure {
	a, b := c.A.intSet(), c.B.intSet()
	ma, _ := c25Mask(a)
	mb, _ := c25Mask(b)
	var reuse []int
	if c.Reuse > 0 {
		reuse = make([]int, c.Reuse)
	}
	type opT struct {
		name string
		got  container.IntSet
		want uint32
	}
	ops := []opT{
		{"Merge", container.Merge(a, b, reuse), ma | mb},
	}
	// each op gets its own buffer: results may alias reuse
	if c.Reuse > 0 {
		reuse = make([]int, c.Reuse)
	}
	ops = append(ops, opT{"Intersect", container.Intersect(a, b, reuse), ma & mb})
	ops = append(ops, opT{"ComplementA", a.Complement(), c25All &^ ma})
	for _, op := range ops {
		r.Eval(1)
		got, ok := c25Mask(op.got)
		if !ok {
			return failf("algebra-"+op.name+"-malformed", "%s(%v, %v) returned a malformed set %v (unsorted, duplicate or foreign element)", op.name, a, b, op.got)
		}
		if got != op.want {
			return failf("algebra-"+op.name, "%s(%v, %v) = %v, which is not the set-theoretic result (mask got %017b want %017b)", op.name, a, b, op.got, got, op.want)
		}
		if (got == 0) != op.got.Empty() {
			return failf("algebra-empty", "%s(%v,%v)=%v: Empty() = %v", op.name, a, b, op.got, op.got.Empty())
		}
	}
	// inputs must not be modified
	if ma2, _ := c25Mask(a); ma2 != ma {
		return failf("algebra-input-modified", "input a modified")
	}
	if mb2, _ := c25Mask(b); mb2 != mb {
		return failf("algebra-input-modified", "input b modified")
	}
	if (c.A.Inv || c.B.Inv) && ma != 0 && mb != 0 && ma != c25All && mb != c25All {
		cs, _ := json.Marshal(c)
		r.Nontrivial(string(cs))
		r.Class("algebra:co-finite-operand")
		if r.WantSample() {
			r.Sample(c)
		}
	} else {
		r.Class("algebra:finite-or-trivial")
	}
	return nil
}

// c25Solve is the reference solver. It returns the per-node masks, or cyc=true when a
// complement lies on a dependency cycle.
func c25Solve(nodes []c25Node) (val []uint32, cyc bool, cycleInfo string) {
	n := len(nodes)
	reach := make([][]bool, n)
	for i := range reach {
		reach[i] = make([]bool, n)
		for _, e := range nodes[i].Edges {
			reach[i][e] = true
		}
	}
	for k := 0; k < n; k++ {
		for i := 0; i < n; i++ {
			for j := 0; j < n; j++ {
				if reach[i][k] && reach[k][j] {
					reach[i][j] = true
				}
			}
		}
	}
	hasMultiCycle, interInCycle := false, false
	for i, nd := range nodes {
		if reach[i][i] {
			hasMultiCycle = true
			if nd.Op == "inter" {
				interInCycle = true
			}
		}
		if nd.Op == "compl" && reach[nd.Edges[0]][i] {
			cyc = true
		}
	}
	switch {
	case cyc:
		cycleInfo = "complement-on-cycle"
	case interInCycle:
		cycleInfo = "intersection-in-cycle"
	case hasMultiCycle:
		cycleInfo = "union-cycle"
	default:
		cycleInfo = "acyclic"
	}
	if cyc {
		return nil, true, cycleInfo
	}
	// Stratified Kleene iteration: a node is "ready" once all nodes it depends on outside its
	// SCC are final. Process SCCs in dependency order by repeatedly picking an unfinished SCC
	// all of whose external dependencies are finished.
	val = make([]uint32, n)
	done := make([]bool, n)
	same := func(i, j int) bool { return i == j || (reach[i][j] && reach[j][i]) }
	for remaining := n; remaining > 0; {
		progress := false
		for i := 0; i < n; i++ {
			if done[i] {
				continue
			}
			ready := true
			var comp []int
			for j := 0; j < n; j++ {
				if same(i, j) {
					comp = append(comp, j)
				}
			}
			for _, v := range comp {
				for _, e := range nodes[v].Edges {
					if !same(i, e) && !done[e] {
						ready = false
					}
				}
			}
			if !ready {
				continue
			}
			for _, v := range comp {
				val[v] = 0
			}
			for changed := true; changed; {
				changed = false
				for _, v := range comp {
					var nv uint32
					switch nodes[v].Op {
					case "union":
						for _, b := range nodes[v].Base {
							nv |= 1 << uint(b)
						}
						for _, e := range nodes[v].Edges {
							nv |= val[e]
						}
					case "inter":
						nv = c25All
						for _, e := range nodes[v].Edges {
							nv &= val[e]
						}
					case "compl":
						nv = c25All &^ val[nodes[v].Edges[0]]
					}
					if nv != val[v] {
						val[v] = nv
						changed = true
					}
				}
			}
			for _, v := range comp {
				done[v] = true
				remaining--
			}
			progress = true
		}
		if !progress {
			panic("c25 oracle: no progress")
		}
	}
	return val, false, cycleInfo
}

func c25System(c c25Case, r *ev.Recorder) *Failure {
	n := len(c.Nodes)
	cl := set.NewClosure(c.Reuse + 16)
	fs := make([]*set.FutureSet, n)
	for i, nd := range c.Nodes {
		switch nd.Op {
		case "union":
			b := append([]int(nil), nd.Base...)
			sort.Ints(b)
			fs[i] = cl.Add(b)
		case "inter":
			var args []*set.FutureSet
			for _, e := range nd.Edges {
				args = append(args, fs[e])
			}
			fs[i] = cl.Intersect(args...)
		case "compl":
			fs[i] = cl.Complement(fs[nd.Edges[0]], nil)
		}
	}
	for i, nd := range c.Nodes {
		if nd.Op == "union" {
			for _, e := range nd.Edges {
				fs[i].Include(fs[e])
			}
		}
	}
	err := cl.Compute()
	want, cyc, info := c25Solve(c.Nodes)
	r.Eval(1)
	r.Class("system:" + info)
	if n == 1 {
		r.Class("system:single-node")
	}
	if cyc != (err != nil) {
		return failf("system-error-iff-self-dependent-complement", "Compute() error = %v but oracle says complement-on-cycle = %v for system %s", err, cyc, c25Render(c.Nodes))
	}
	if cyc {
		cs, _ := json.Marshal(c.Nodes)
		r.Nontrivial(string(cs))
		return nil
	}
	for i := range c.Nodes {
		got, ok := c25Mask(fs[i].IntSet)
		if !ok {
			return failf("system-malformed", "node %d: malformed result %v in system %s", i, fs[i].IntSet, c25Render(c.Nodes))
		}
		if got != want[i] {
			return failf("system-least-solution", "node %d = %v but the least solution is %s; system %s", i, fs[i].IntSet, c25MaskStr(want[i]), c25Render(c.Nodes))
		}
	}
	if info != "acyclic" {
		cs, _ := json.Marshal(c.Nodes)
		r.Nontrivial(string(cs))
		if r.WantSample() {
			r.Sample(map[string]any{"system": c25Render(c.Nodes), "shape": info})
		}
	}
	return nil
}

func c25MaskStr(m uint32) string {
	var e []int
	inv := m&(1<<16) != 0
	for i := 0; i < 16; i++ {
		if (m&(1<<uint(i)) != 0) != inv {
			e = append(e, i)
		}
	}
	if inv {
		return fmt.Sprintf("~%v", e)
	}
	return fmt.Sprintf("%v", e)
}

func c25Render(nodes []c25Node) string {
	s := ""
	for i, nd := range nodes {
		if i > 0 {
			s += "; "
		}
		switch nd.Op {
		case "union":
			s += fmt.Sprintf("N%d = %v", i, nd.Base)
			for _, e := range nd.Edges {
				s += fmt.Sprintf(" | N%d", e)
			}
		case "inter":
			s += fmt.Sprintf("N%d =", i)
			for j, e := range nd.Edges {
				if j > 0 {
					s += " &"
				}
				s += fmt.Sprintf(" N%d", e)
			}
		case "compl":
			s += fmt.Sprintf("N%d = ~N%d", i, nd.Edges[0])
		}
	}
	return s
}

func TestC25(t *testing.T) {
	p := &prop[c25Case]{
		ID: "C25",
		Rule: "rapid-generated cases: 30% pairs of finite/co-finite IntSets over [0,12) checked for Merge/Intersect/Complement against a bitmask model; 70% equation systems of 1..8 nodes (union with base set, intersection of 1..3 earlier nodes, complement of an earlier node, Include edges from union nodes to any node) solved by set.Closure and by stratified Kleene iteration. All pairs of sets over universe {0..4} (64x64, both polarities) are enumerated exhaustively first. Non-trivial: algebra case with a co-finite operand and neither operand empty/universal; system with a dependency cycle (union cycle, intersection in cycle, or complement on cycle). Distinct by JSON of the case.",
		Assume: []string{"zero-arity Intersect() is not generated (the statement does not define the empty intersection)", "elements < 16 so that the mask model is exact"},
		Quick: 20000, Thorough: 400000,
		Gen:   c25Gen,
		Check: c25Check,
		Pre: func(r *ev.Recorder, run func(c c25Case) *Failure) *Failure {
			if s, _ := shard(); s != 0 {
				return nil
			}
			sub := func(m int) []int {
				var e []int
				for i := 0; i < 5; i++ {
					if m&(1<<uint(i)) != 0 {
						e = append(e, i)
					}
				}
				return e
			}
			cnt := 0
			for a := 0; a < 64; a++ {
				for b := 0; b < 64; b++ {
					c := c25Case{Kind: "algebra", A: c25Set{a >= 32, sub(a & 31)}, B: c25Set{b >= 32, sub(b & 31)}, Reuse: (a + b) % 5}
					if f := run(c); f != nil {
						return f
					}
					cnt++
				}
			}
			r.Extra("exhaustive_algebra_pairs_universe5", int64(cnt))
			return nil
		},
	}
	p.run(t)
}
