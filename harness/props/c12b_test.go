package props

import (
	"fmt"
	"strings"
	"testing"

	"verif/harness/internal/batch"
	"verif/harness/internal/ev"
	"verif/harness/internal/respec"
)

// C12 for GENERATED lexers: the C11 grammar generator, but arbitrary byte inputs (including ones
// on which the exact tokenization is outside C11's domain) and only the progress / ordering /
// line / column invariants.

func c12bCheck(c c11Case, res *batch.Result, run runFunc, r *ev.Recorder) *Failure {
	g := res.Grammar
	rnd := &lcg{uint64(c.Seed) + 77}
	inputs := c.inputs()
	for i := 0; i < 40; i++ {
		n := rnd.next(24)
		b := make([]byte, n)
		for j := range b {
			switch rnd.next(5) {
			case 0:
				b[j] = '\n'
			case 1:
				b[j] = byte(0x80 + rnd.next(0x80))
			case 2:
				b[j] = "ghq abc01"[rnd.next(9)]
			default:
				b[j] = byte(rnd.next(256))
			}
		}
		inputs = append(inputs, string(b))
	}
	bomSkipped := c.Opts["skipByteOrderMark"] != "false"
	for _, in := range inputs {
		out, pan, err := run(0, in, "")
		r.Eval(1)
		if err != nil {
			return failf("generated-lexer-hangs-or-dies", "%v on input %q; grammar:\n%s", err, in, c.render("g"))
		}
		if pan != "" {
			return failf("generated-lexer-panics", "panic %s on input %q; grammar:\n%s", oneLine(pan, 300), in, c.render("g"))
		}
		var toks []c12Tok
		for _, f := range strings.Split(strings.TrimSuffix(out, ";"), ";") {
			var x c12Tok
			if n, _ := fmt.Sscanf(f, "%d:%d:%d:%d:%d", &x.tok, &x.start, &x.end, &x.line, &x.col); n != 5 {
				return failf("adapter-output", "bad adapter output %q", f)
			}
			toks = append(toks, x)
		}
		if len(toks) > len(in)+3 {
			return failf("too-many-tokens", "%d tokens for %d bytes of input %q; grammar:\n%s", len(toks), len(in), in, c.render("g"))
		}
		src := in
		if !bomSkipped && strings.HasPrefix(src, "\xef\xbb\xbf") {
			// without BOM skipping the BOM bytes are ordinary input: tell the invariant checker
			// not to expect a skipped prefix by checking a shifted view
			src = in
		}
		f, multiline, invalid := c12Invariants("generated", src, toks, g.Options.TokenLine, g.Options.TokenColumn, nil)
		if f != nil {
			f.Msg += "\ngrammar:\n" + c.render("g")
			return f
		}
		// Tiling: the text between two returned tokens must be made of matches of (space) rules
		// (of any start condition); with no space rule there may be no gap at all.
		prev := 0
		if bomSkipped && strings.HasPrefix(src, "\xef\xbb\xbf") {
			prev = 3
		}
		for _, tk := range toks {
			if tk.start > prev && tk.start <= len(src) {
				gap := src[prev:tk.start]
				reach := make([]bool, len(gap)+1)
				reach[0] = true
				for i := 0; i < len(gap); i++ {
					if !reach[i] {
						continue
					}
					for ri := range c.Rules {
						rule := &c.Rules[ri]
						if !rule.Space {
							continue
						}
						lens, _ := respec.MatchLens(rule.node(), respec.Env{Bytes: c.bytes(), Fold: c.fold(), RefFold: c.fold(), Refs: c.Named}, gap[i:])
						for _, l := range lens {
							if l > 0 {
								reach[i+l] = true
							}
						}
					}
				}
				if !reach[len(gap)] {
					return failf("gap-not-skippable", "the generated lexer skips %q (bytes %d..%d of %q) which no (space) rule matches; grammar:\n%s", gap, prev, tk.start, in, c.render("g"))
				}
			}
			if tk.end > prev {
				prev = tk.end
			}
		}
		if multiline || invalid {
			r.Nontrivial("gen\x00" + in + fmt.Sprint(c.Seed))
		}
	}
	r.Class("lexer:generated")
	return nil
}

func TestC12B(t *testing.T) {
	p := &batchProp[c11Case]{
		ID:        "C12",
		Rule:      "generated lexers: C11's lexer grammar generator (rule sets, start conditions, keywords, options) built and run on C11's inputs plus 40 random byte strings each (newlines, bytes >= 0x80, arbitrary bytes); the same progress / non-empty / ordering / line / column invariants.",
		Quick:     40, Thorough: 800, BatchSize: 40,
		Gen:       c11Gen,
		Unit:      c11Unit,
		Check:     c12bCheck,
	}
	p.run(t)
}
