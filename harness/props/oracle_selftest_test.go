package props

import (
	"testing"

	"verif/harness/internal/oracle"
)

// Self-tests of the reference implementations against hand-computed facts (run by setup_cmd).

func TestOracleEarley(t *testing.T) {
	// E: E + T | T ; T: T * F | F ; F: ( E ) | a     terminals: p=1 m=2 l=3 r=4 a=5
	g := parseFamily("E: E p T | T ; T: T m F | F ; F: l E r | a")
	cfg := g.toCFG()
	rec := oracle.NewRecognizer(cfg, g.T)
	cases := []struct {
		toks     []int
		sentence bool
		viable   int
	}{
		{[]int{5}, true, 1},
		{[]int{5, 1, 5, 2, 5}, true, 5},
		{[]int{3, 5, 4}, true, 3},
		{[]int{5, 1}, false, 2},
		{[]int{1}, false, 0},
		{[]int{5, 5}, false, 1},
		{[]int{3, 5, 1, 4}, false, 3},
		{[]int{}, false, 0},
	}
	for _, c := range cases {
		an := rec.Analyze(c.toks)
		if an.IsSentence(len(c.toks)) != c.sentence || an.Viable != c.viable {
			t.Errorf("tokens %v: sentence=%v viable=%d, want %v %d", c.toks, an.IsSentence(len(c.toks)), an.Viable, c.sentence, c.viable)
		}
	}
	// nullable chains: S: A B c ; A: a | ; B: b |      a=1 c=2 b=3
	g2 := parseFamily("S: A B c ; A: a | ; B: b |")
	rec2 := oracle.NewRecognizer(g2.toCFG(), g2.T)
	for _, c := range []struct {
		toks []int
		ok   bool
	}{{[]int{1}, true}, {[]int{2, 1}, true}, {[]int{3, 1}, true}, {[]int{2, 3, 1}, true}, {[]int{3, 2, 1}, false}, {[]int{}, false}} { // c=1 a=2 b=3
		if got := rec2.Analyze(c.toks).IsSentence(len(c.toks)); got != c.ok {
			t.Errorf("nullable grammar, tokens %v: sentence=%v want %v", c.toks, got, c.ok)
		}
	}
	// unproductive start
	g3 := parseFamily("S: a S")
	if an := oracle.NewRecognizer(g3.toCFG(), g3.T).Analyze([]int{1}); an.Viable != -1 {
		t.Errorf("unproductive start: viable=%d want -1", an.Viable)
	}
	// random sentences are sentences
	seed := &lcg{7}
	for i := 0; i < 200; i++ {
		toks, _, ok := oracle.Sentence(cfg, g.T, 10, seed.next)
		if !ok || !rec.Analyze(toks).IsSentence(len(toks)) {
			t.Fatalf("Sentence produced a non-sentence %v", toks)
		}
	}
}

func TestOracleLR(t *testing.T) {
	// Dragon book 4.55 (LALR but not SLR): S: L = R | R ; L: * R | id ; R: L
	g := parseFamily("S: L e R | R ; L: s R | i ; R: L")
	l, err := oracle.BuildLALR(g.toCFG(), 1000)
	if err != nil {
		t.Fatal(err)
	}
	// 10 LALR states of the book + the state after shifting eoi
	if len(l.States) != 11 {
		t.Errorf("LALR states = %d, want 11", len(l.States))
	}
	if l.LR1 != 15 {
		t.Errorf("canonical LR(1) states = %d, want 15 (14 of the book + accept-after-eoi)", l.LR1)
	}
	conflicts := 0
	for si := range l.States {
		cells, _ := l.Cells(si)
		for _, c := range cells {
			if (c.Shift && len(c.Reduces) > 0) || len(c.Reduces) > 1 {
				conflicts++
			}
		}
	}
	if conflicts != 0 {
		t.Errorf("grammar 4.55 must be conflict-free in LALR(1), got %d conflicting cells", conflicts)
	}
	// LR(1) but not LALR(1): S: a E c | a F d | b F c | b E d ; E: e ; F: e  => 2 r/r cells
	g2 := parseFamily("S: a E c | a F d | b F c | b E d ; E: e ; F: e")
	l2, _ := oracle.BuildLALR(g2.toCFG(), 1000)
	rr := 0
	for si := range l2.States {
		cells, _ := l2.Cells(si)
		for _, c := range cells {
			if !c.Shift && len(c.Reduces) > 1 {
				rr++
			}
		}
	}
	if rr != 2 {
		t.Errorf("LR(1)-not-LALR grammar: %d reduce/reduce cells, want 2 (on c and d)", rr)
	}
	// dangling else: exactly one shift/reduce cell
	g3 := parseFamily("S: i S | i S e S | x")
	l3, _ := oracle.BuildLALR(g3.toCFG(), 1000)
	sr := 0
	for si := range l3.States {
		cells, _ := l3.Cells(si)
		for _, c := range cells {
			if c.Shift && len(c.Reduces) > 0 {
				sr++
			}
		}
	}
	if sr != 1 {
		t.Errorf("dangling else: %d shift/reduce cells, want 1", sr)
	}
}

func TestOracleSetModel(t *testing.T) {
	// c25 reference solver: N0 = {0,1}; N1 = ~N0; N2 = {0} | N1; N3 = N2 & N0  => N3 = {0}
	nodes := []c25Node{{Op: "union", Base: []int{0, 1}}, {Op: "compl", Edges: []int{0}}, {Op: "union", Base: []int{0}, Edges: []int{1}}, {Op: "inter", Edges: []int{2, 0}}}
	val, cyc, _ := c25Solve(nodes)
	if cyc || val[3] != 1 {
		t.Errorf("c25Solve: N3 = %b cyc=%v, want {0}", val[3], cyc)
	}
	// A = ~B; B = A  => complement on a cycle
	nodes = []c25Node{{Op: "union", Edges: []int{1}}, {Op: "compl", Edges: []int{0}}}
	if _, cyc, _ := c25Solve(nodes); !cyc {
		t.Errorf("c25Solve: complement cycle not detected")
	}
}
