package props

import (
	"encoding/json"
	"fmt"
	"os"
	"regexp"
	"sort"
	"strings"
	"testing"

	"github.com/inspirer/textmapper/grammar"
	"pgregory.net/rapid"

	"verif/harness/internal/batch"
	"verif/harness/internal/ev"
)

// C17 — generation completes and the generated Go code builds, for any accepted grammar under any
// combination of supported options. The "oracle" is the contract itself: no crash, no generation
// error, no "go fmt failed" marker, and `go build ./...` of the generated packages succeeds.

type c17Case struct {
	G       egSpec            `json:"g"`
	Opts    map[string]string `json:"opts"`
	K       int               `json:"k,omitempty"` // lalr(k)
	Space   bool              `json:"space"`
	ErrRule bool              `json:"err_rule,omitempty"`
	Inject  bool              `json:"inject,omitempty"`
	Names   map[string]string `json:"names,omitempty"` // nonterminal renames (Go keywords, generated type names)
	// RulePrec: "<nonterminal index>:<alternative index>" -> terminal of a `%prec` marker (C30).
	RulePrec map[string]int `json:"ruleprec,omitempty"`
}

var c17BoolOpts = []string{"eventBased", "eventFields", "eventAST", "genSelector", "fixWhitespace", "tokenStream", "cancellable", "cancellableFetch", "recursiveLookaheads", "optimizeTables", "minimizeDFA", "defaultReduce", "writeBison", "debugParser", "tokenLine", "tokenColumn", "tokenLineOffset", "scanBytes", "nonBacktracking", "caseInsensitive", "skipByteOrderMark", "genParser", "genCopyright", "noEmptyRules"}

func c17Gen(t *rapid.T) c17Case {
	c := c17Case{Opts: map[string]string{}}
	c.G = genEG(t, egGenOpts{MaxNT: 4, Terms: 6, NodePct: 50, Lists: true, MaxDepth: 2, NestedNode: true})
	if rapid.IntRange(0, 2).Draw(t, "enrich") == 0 {
		egEnrich(t, &c.G)
	}
	// a coherent base profile, then random flips
	profile := rapid.IntRange(0, 4).Draw(t, "profile")
	switch profile {
	case 0: // plain parser
	case 1:
		c.Opts["eventBased"] = "true"
	case 2:
		c.Opts["eventBased"], c.Opts["eventFields"] = "true", "true"
	case 3:
		c.Opts["eventBased"], c.Opts["eventFields"], c.Opts["eventAST"] = "true", "true", "true"
	case 4:
		c.Opts["eventBased"], c.Opts["eventFields"], c.Opts["eventAST"], c.Opts["tokenStream"], c.Opts["fixWhitespace"] = "true", "true", "true", "true", "true"
	}
	n := rapid.IntRange(0, 6).Draw(t, "nflips")
	for i := 0; i < n; i++ {
		o := c17BoolOpts[rapid.IntRange(0, len(c17BoolOpts)-1).Draw(t, "opt")]
		c.Opts[o] = fmt.Sprint(rapid.Bool().Draw(t, "val"))
	}
	if rapid.IntRange(0, 5).Draw(t, "fileNode") == 0 {
		c.Opts["fileNode"] = `"N0"`
	}
	if rapid.IntRange(0, 5).Draw(t, "nodePrefix") == 0 {
		c.Opts["nodePrefix"] = `"Nd"`
	}
	if rapid.IntRange(0, 7).Draw(t, "extraTypes") == 0 {
		c.Opts["extraTypes"] = `["Extra", "Other -> N1"]`
	}
	if rapid.IntRange(0, 7).Draw(t, "optSuffix") == 0 {
		c.Opts["optInstantiationSuffix"] = `"_opt"`
	}
	if rapid.IntRange(0, 5).Draw(t, "lalrk") == 0 {
		c.K = rapid.IntRange(2, 3).Draw(t, "k")
	}
	c.Space = rapid.IntRange(0, 3).Draw(t, "space") > 0
	c.ErrRule = rapid.IntRange(0, 3).Draw(t, "err") == 0
	c.Inject = c.Space && rapid.IntRange(0, 3).Draw(t, "inject") == 0
	if rapid.IntRange(0, 5).Draw(t, "rename") == 0 {
		pool := []string{"func", "type", "range", "Parser", "Lexer", "Token", "Listener", "NodeType", "SyntaxError", "go", "select", "interface", "map", "chan", "Node", "Tree", "symbol", "session", "stackEntry", "token", "String", "Init", "Next"}
		c.Names = map[string]string{}
		for i := range c.G.NTs {
			if rapid.Bool().Draw(t, "renameThis") {
				c.Names[c.G.NTs[i].Name] = pool[rapid.IntRange(0, len(pool)-1).Draw(t, "newName")]
			}
		}
	}
	if rapid.IntRange(0, 11).Draw(t, "dupInput") == 0 {
		// the same nonterminal as a full and as a no-eoi input (must be rejected or must build)
		first := c.G.Inputs[0]
		c.G.Inputs = append(c.G.Inputs, egInput{NT: first.NT, Eoi: !first.Eoi})
	}
	if rapid.IntRange(0, 11).Draw(t, "deepLA") == 0 && c.G.T > 4 {
		// a reduce/reduce conflict that only a second token of lookahead resolves
		n := len(c.G.NTs)
		mk := func(ts ...int) *egAlt {
			a := &egAlt{}
			for _, x := range ts {
				if x < 0 {
					a.Parts = append(a.Parts, &egPart{K: "n", Sym: -x})
				} else {
					a.Parts = append(a.Parts, &egPart{K: "t", Sym: x})
				}
			}
			return a
		}
		c.G.NTs = append(c.G.NTs,
			&egNT{Name: "Dla", Alts: []*egAlt{mk(-(n + 1), 1, 2), mk(-(n + 2), 1, 3)}},
			&egNT{Name: "Dlb", Alts: []*egAlt{mk(4)}},
			&egNT{Name: "Dlc", Alts: []*egAlt{mk(4)}})
		c.G.Inputs = append(c.G.Inputs, egInput{NT: n, Eoi: true})
		if c.K == 0 {
			c.K = 2
		}
	}
	return c
}

func (c *c17Case) render(name string) string {
	g := c.G
	if len(c.Names) > 0 {
		js, _ := json.Marshal(c.G)
		json.Unmarshal(js, &g)
		used := map[string]bool{}
		for _, nt := range g.NTs {
			if nn, ok := c.Names[nt.Name]; ok && !used[nn] {
				used[nn] = true
				nt.Name = nn
			}
		}
	}
	opts := map[string]string{}
	for k, v := range c.Opts {
		opts[k] = v
	}
	pre := ""
	if c.K > 0 {
		pre += fmt.Sprintf("lalr(%d)\n", c.K)
	}
	if c.ErrRule {
		opts["__lexer"] = "error:\ninvalid_token:\n"
	}
	if c.Inject {
		pre += "%inject space -> Blank;\n"
	}
	suffix := func(nt, alt int) string {
		s := ""
		if t, ok := c.RulePrec[fmt.Sprintf("%d:%d", nt, alt)]; ok {
			s = " %prec " + egTerm(t)
		}
		if c.ErrRule && nt == 0 && alt == len(g.NTs[0].Alts)-1 {
			s += "\n  | error"
		}
		return s
	}
	return g.render(name, opts, c.Space, pre, suffix)
}

func trivialAdapter(g *grammar.Grammar, files map[string]string) map[string]string {
	return map[string]string{"verif_export.go": fmt.Sprintf("package %s\n\nfunc VerifRun(entry int, src string, arg string) string { return \"\" }\n", g.Name)}
}

var c17Num = regexp.MustCompile(`[0-9]+`)

// c17ErrKey normalises the first compiler error line into a finding key.
func c17ErrKey(log string) string {
	for _, l := range strings.Split(log, "\n") {
		if i := strings.Index(l, ".go:"); i >= 0 {
			file := l[:i]
			if j := strings.LastIndex(file, "/"); j >= 0 {
				file = file[strings.Index(file, "/")+1:]
			}
			msg := l[i:]
			if k := strings.Index(msg, ": "); k >= 0 {
				msg = msg[k+2:]
			}
			msg = c17Num.ReplaceAllString(msg, "N")
			return file + ".go: " + firstWords(msg, 7)
		}
	}
	return firstWords(log, 8)
}

func (c *c17Case) optString() string {
	var ks []string
	for k, v := range c.Opts {
		ks = append(ks, k+"="+v)
	}
	sort.Strings(ks)
	if c.K > 0 {
		ks = append(ks, fmt.Sprintf("lalr(%d)", c.K))
	}
	return strings.Join(ks, " ")
}

func c17OnGenerated(c c17Case, res *batch.Result, r *ev.Recorder) *Failure {
	r.Eval(1)
	if res.CompileErr != nil {
		msg := res.CompileErr.Error()
		if i := strings.Index(msg, ": "); i > 0 {
			msg = msg[i+2:]
		}
		if strings.Contains(msg, "conflict") {
			msg = "LALR conflicts"
		}
		r.Excluded("compiler-rejects:" + firstWords(c17Num.ReplaceAllString(msg, "N"), 4))
		return nil
	}
	if res.Crash != "" {
		site := panicSite(res.Crash)
		first := firstWords(res.Crash, 8)
		return failf("generation-crash:"+site+":"+firstWords(c17Num.ReplaceAllString(first, "N"), 6), "compile+generate crashed (%s) with options [%s]: %s\ngrammar:\n%s", site, c.optString(), oneLine(res.Crash, 600), c.render("g"))
	}
	if res.GenErr != nil {
		return failf("generation-error:"+firstWords(c17Num.ReplaceAllString(res.GenErr.Error(), "N"), 6), "gen.Generate failed for an accepted grammar with options [%s]: %v\ngrammar:\n%s", c.optString(), res.GenErr, c.render("g"))
	}
	for name, content := range res.Files {
		if strings.HasPrefix(content, "// go fmt failed") {
			first := content[:strings.Index(content, "\n")]
			return failf("gofmt-failed:"+name+":"+firstWords(c17Num.ReplaceAllString(first, "N"), 9), "generated file %s is not valid Go (%s) with options [%s]\ngrammar:\n%s", name, first, c.optString(), c.render("g"))
		}
	}
	return nil
}

func c17OnNotBuilt(c c17Case, res *batch.Result, r *ev.Recorder) *Failure {
	if os.Getenv("VERIF_C17_SURVEY") != "" {
		// survey mode (development aid): list every distinct failure instead of stopping
		r.Excluded("SURVEY build-fails:" + c17ErrKey(res.BuildLog) + " [" + c.optString() + "]")
		return nil
	}
	return failf("build-fails:"+c17ErrKey(res.BuildLog), "generated Go package does not build with options [%s]:\n%s\ngrammar:\n%s", c.optString(), res.BuildLog, c.render("g"))
}

func c17Check(c c17Case, res *batch.Result, run runFunc, r *ev.Recorder) *Failure {
	nondefault := len(c.Opts)
	if c.K > 0 {
		nondefault++
	}
	feats := 0
	for _, b := range []bool{c.ErrRule, c.Inject, len(c.Names) > 0, c.K > 0} {
		if b {
			feats++
		}
	}
	for k := range c.Opts {
		r.Class("built-with:" + k + "=" + c.Opts[k])
	}
	if nondefault >= 3 {
		r.Nontrivial(c.optString() + fmt.Sprint(c.ErrRule, c.Inject, len(c.Names) > 0))
		if r.WantSample() {
			r.Sample(map[string]any{"options": c.optString(), "error_rule": c.ErrRule, "inject": c.Inject, "files": len(res.Files)})
		}
	}
	_ = feats
	return nil
}

func TestC17(t *testing.T) {
	p := &batchProp[c17Case]{
		ID:          "C17",
		Rule:        "extended-notation grammars (C02 generator, 1/3 enriched with sets, lookaheads, markers, mid-rule commands, aliases) under one of five coherent option profiles (plain, eventBased, +eventFields, +eventAST, +tokenStream+fixWhitespace) plus 0..6 random flips among 24 boolean options, fileNode, nodePrefix, extraTypes, optInstantiationSuffix, lalr(2..3), optional error-recovery alternative, %inject of the space token, nonterminals renamed to Go keywords / names of generated types; kept when compiler.Compile accepts them. For every accepted grammar: compile+generate must not crash (panics and log.Fatal are trapped), gen.Generate must not return an error, no written file may carry the 'go fmt failed' marker, and `go build ./...` of the scratch module must succeed for its package(s). Non-trivial: built grammar with >=3 explicitly set options; distinct by (option set, features).",
		Assume:      []string{"only the Go target is generated", "go vet is not part of the statement and is not required"},
		Quick:       96, Thorough: 1920, BatchSize: 96,
		Gen:         c17Gen,
		Unit:        func(c c17Case, name string) (batch.Unit, bool) { return batch.Unit{Name: name, TM: c.render(name), Adapter: trivialAdapter}, true },
		OnGenerated: c17OnGenerated,
		OnNotBuilt:  c17OnNotBuilt,
		Check:       c17Check,
	}
	p.run(t)
}
