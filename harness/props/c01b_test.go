package props

import (
	"encoding/json"
	"fmt"
	"strings"
	"testing"

	"github.com/inspirer/textmapper/grammar"
	"pgregory.net/rapid"

	"verif/harness/internal/batch"
	"verif/harness/internal/ev"
	"verif/harness/internal/oracle"
)

// C01 tier B — the GENERATED Go parser (templates go_parser.go.tmpl, go_parser_tables.go.tmpl,
// go_lexer.go.tmpl) accepts exactly the grammar's language; error offsets are byte offsets of the
// first non-viable token. Oracle: Earley recogniser over the spec.

type c01bCase struct {
	G        gSpec       `json:"g"`
	Optimize bool        `json:"optimize"`
	DefRed   bool        `json:"default_reduce"`
	Minimize bool        `json:"minimize"`
	Space    bool        `json:"space"`
	MidRule  map[int]int `json:"midrule,omitempty"`
	Markers  map[int]int `json:"markers,omitempty"`
	Seed     int         `json:"seed"`
	Extra    [][]int     `json:"extra,omitempty"`
}

func c01bGen(t *rapid.T) c01bCase {
	o := gDefaultOpts
	o.FamilyPercent = 75
	c := c01bCase{
		Optimize: rapid.Bool().Draw(t, "optimize"),
		DefRed:   rapid.Bool().Draw(t, "defaultReduce"),
		Minimize: rapid.Bool().Draw(t, "minimize"),
		Space:    rapid.Bool().Draw(t, "space"),
		Seed:     rapid.IntRange(0, 1<<30).Draw(t, "seed"),
	}
	if rapid.IntRange(0, 9).Draw(t, "wide") == 0 {
		// a grammar where one nonterminal has >= 16 goto pairs, so that the binary-search branch
		// of the generated gotoState (max-min >= 32) is taken: S: t_i X u_i for many i.
		c.G = wideGotoGrammar(rapid.IntRange(16, 22).Draw(t, "width"))
		return c
	}
	c.G = genGSpec(t, o)
	if rapid.IntRange(0, 3).Draw(t, "withActions") == 0 {
		c.MidRule = map[int]int{}
		c.Markers = map[int]int{}
		for i, r := range c.G.Rules {
			if len(r.R) >= 2 && rapid.IntRange(0, 3).Draw(t, "mid") == 0 {
				c.MidRule[i] = rapid.IntRange(1, len(r.R)-1).Draw(t, "midpos")
			} else if rapid.IntRange(0, 3).Draw(t, "mark") == 0 {
				// also in empty rules (`A: .mark ;` stays nullable) and at the very end of a rule
				c.Markers[i] = rapid.IntRange(0, len(r.R)).Draw(t, "markpos")
			}
		}
	}
	return c
}

// wideGotoGrammar: S: a X a | b X b | ... (n terminals), X: x — X has n goto entries.
func wideGotoGrammar(n int) gSpec {
	g := gSpec{T: n + 2, N: 2}
	S, X := g.T, g.T+1
	for i := 1; i <= n; i++ {
		g.Rules = append(g.Rules, gRule{L: S, R: []int{i, X, i}})
	}
	g.Rules = append(g.Rules, gRule{L: X, R: []int{n + 1}})
	g.Inputs = []gInput{{NT: S, Eoi: true}}
	return g
}

func c01bUnit(c c01bCase, name string) (batch.Unit, bool) {
	if !c.G.valid() || c.G.T > 27 {
		return batch.Unit{}, false
	}
	opts := map[string]string{
		"optimizeTables": fmt.Sprint(c.Optimize),
		"defaultReduce":  fmt.Sprint(c.DefRed),
		"minimizeDFA":    fmt.Sprint(c.Minimize),
		"eventBased":     "false",
	}
	tm := c.G.toTM(tmOpts{Name: name, Options: opts, Space: c.Space, MidRule: c.MidRule, Markers: c.Markers})
	return batch.Unit{Name: name, TM: tm, Adapter: parserAdapter}, true
}

// parserAdapter generates VerifRun for a plain (non event-based) parser: "ok" or "err <off> <end>".
func parserAdapter(g *grammar.Grammar, files map[string]string) map[string]string {
	var sb strings.Builder
	fmt.Fprintf(&sb, "package %s\n\nimport \"fmt\"\n\n", g.Name)
	sb.WriteString("func VerifRun(entry int, src string, arg string) string {\n\tvar l Lexer\n\tl.Init(src)\n\tvar p Parser\n\tp.Init()\n\tvar err error\n\tswitch entry {\n")
	idx := 0
	for _, inp := range g.Parser.Inputs {
		if inp.Synthetic {
			continue
		}
		method := "Parse"
		if g.Parser.HasMultipleUserInputs() {
			method += g.NontermID(inp.Nonterm)
		}
		fmt.Fprintf(&sb, "\tcase %d:\n\t\terr = p.%s(&l)\n", idx, method)
		idx++
	}
	sb.WriteString("\tdefault:\n\t\treturn \"bad entry\"\n\t}\n\tif err == nil {\n\t\treturn \"ok\"\n\t}\n\tif se, ok := err.(SyntaxError); ok {\n\t\treturn fmt.Sprintf(\"err %d %d\", se.Offset, se.Endoffset)\n\t}\n\treturn \"other \" + err.Error()\n}\n")
	return map[string]string{"verif_export.go": sb.String()}
}

func c01bCheck(c c01bCase, res *batch.Result, run runFunc, r *ev.Recorder) *Failure {
	g := c.G
	cfg := g.toCFG()
	cfgName := fmt.Sprintf("optimize=%v defaultReduce=%v minimize=%v space=%v", c.Optimize, c.DefRed, c.Minimize, c.Space)
	sawAccept, sawReject := false, false
	// The i-th user input corresponds to the i-th %input entry.
	for ii, inp := range g.Inputs {
		rec := oracle.NewRecognizer(cfg, inp.NT)
		if !allReachableProductive(cfg, inp.NT, rec.Productive) {
			r.Excluded("input-with-unproductive-reachable-nonterminal")
			continue
		}
		strs, _ := tokenStrings(cfg, inp.NT, c.Seed, 150)
		strs = append(strs, c.Extra...)
		for si, toks := range strs {
			ok := true
			for _, tk := range toks {
				if tk < 1 || tk >= g.T {
					ok = false
				}
			}
			if !ok {
				continue
			}
			an := rec.Analyze(toks)
			wantAcc, wantErr := expectOutcome(an, len(toks), inp.Eoi)
			src, offs := tokensToSource(&g, toks, c.Space, c.Seed+si)
			out, pan, err := run(ii, src, "")
			r.Eval(1)
			where := fmt.Sprintf("input %s%s, source %q (tokens [%s]), %s; grammar: %s", g.symName(inp.NT), map[bool]string{true: "", false: " no-eoi"}[inp.Eoi], src, tokensString(&g, toks), cfgName, g.String())
			if err != nil {
				return failf("generated-parser-hangs-or-dies", "generated parser: %v on %s", err, where)
			}
			if pan != "" {
				return failf("generated-parser-panics", "generated parser panics: %s on %s", oneLine(pan, 400), where)
			}
			switch {
			case out == "ok":
				if !wantAcc {
					return failf("accept-mismatch:want=false", "generated parser accepts a string that is not in the language (%s)", where)
				}
			case strings.HasPrefix(out, "err "):
				if wantAcc {
					return failf("accept-mismatch:want=true", "generated parser rejects (%s) a string of the language (%s)", out, where)
				}
				var off, end int
				fmt.Sscanf(out, "err %d %d", &off, &end)
				if off != offs[wantErr] {
					return failf("error-offset", "generated parser reports the syntax error at byte %d, the first non-viable token (#%d) starts at byte %d (%s)", off, wantErr, offs[wantErr], where)
				}
			default:
				return failf("unexpected-result", "generated parser returned %q on %s", out, where)
			}
			if wantAcc {
				sawAccept = true
			} else {
				sawReject = true
			}
		}
	}
	t := res.Grammar.Parser.Tables
	if hasLalrState(t) && sawAccept && sawReject {
		js, _ := json.Marshal(c.G)
		r.Nontrivial(string(js) + cfgName)
		r.Class("generated-code:" + fmt.Sprintf("optimize=%v", c.Optimize))
		if r.WantSample() {
			r.Sample(map[string]any{"tier": "B (generated Go code)", "grammar": g.String(), "config": cfgName, "states": t.NumStates})
		}
	}
	for sym := 0; sym+1 < len(t.Goto); sym++ {
		if t.Goto[sym+1]-t.Goto[sym] >= 32 {
			r.Class("generated-code:binary-search-goto-branch")
			break
		}
	}
	return nil
}

func TestC01B(t *testing.T) {
	p := &batchProp[c01bCase]{
		ID:        "C01",
		Rule:      "tier B: the same grammar generator rendered as .tm text (single-letter terminals, optional skipped space token, mid-rule actions and state markers on 1/4 of the grammars, 1 in 10 a grammar with >=16 goto pairs on one nonterminal so that the generated binary-search gotoState branch runs) x optimizeTables/defaultReduce/minimizeDFA, compiled by compiler.Compile, generated by gen.Generate, built (one scratch module per batch) and run: Parser.Parse<Input>(&lexer) must return nil iff the Earley oracle accepts, otherwise a SyntaxError whose Offset is the byte offset of the first non-viable token (len(src) at end of input).",
		Quick:     128, Thorough: 2400, BatchSize: 64,
		Gen:       c01bGen,
		Unit:      c01bUnit,
		Check:     c01bCheck,
	}
	p.run(t)
}
