package props

import (
	"fmt"
	"regexp"
	"strings"
	"testing"

	"github.com/inspirer/textmapper/parsers/js"
	"github.com/inspirer/textmapper/parsers/json"
	"github.com/inspirer/textmapper/parsers/simple"
	ptest "github.com/inspirer/textmapper/parsers/test"
	"github.com/inspirer/textmapper/parsers/tm"
	"pgregory.net/rapid"

	"verif/harness/internal/ev"
)

// C12 — tokenization always progresses, tiles the input and tracks lines (shipped lexers here,
// generated lexers in TestC12B). Oracle: invariants over the token sequence computed from the
// source text itself.

type c12Case struct {
	Lexer string `json:"lexer"`
	Src   []byte `json:"src"` // base64 in JSON: arbitrary bytes
}

type c12Tok struct {
	tok        int
	start, end int
	line, col  int // 0 when the lexer has no accessor
}

type c12Lexer struct {
	name string
	run  func(src string, max int) []c12Tok // tokens incl. the first two EOIs; stops after max calls
	gap  *regexp.Regexp                     // text allowed between returned tokens (nil: not checked)
	dict []string
}

var c12Lexers = []c12Lexer{
	{
		name: "tm",
		run: func(src string, max int) []c12Tok {
			var l tm.Lexer
			l.Init(src)
			var out []c12Tok
			for i, eois := 0, 0; i < max && eois < 2; i++ {
				t := l.Next()
				s, e := l.Pos()
				out = append(out, c12Tok{int(t), s, e, l.Line(), l.Column()})
				if t == 0 {
					eois++
				}
			}
			return out
		},
		gap:  regexp.MustCompile(`^[\n\r\t ]*$`),
		dict: []string{"language", "lexer", "parser", "::", "%%", "{", "}", "'a'", "'", "\"", "\"x\\\n\"", "\\", "/a/", "/", "/*", "*/", "//", "#", "\n", "\r\n", " ", "\t", "id", "-", "->", ":", ";", "=", "(?=", "(", ")", "[", "]", "<", ">", "set", "%", "%input", "{ x := '}' }", "{ \"\\\"}\" }", "{\n\n}", "{ /* } */ }", "{ // }\n }", "1", "-1", "\xff", "\xef\xbb\xbf", "é", "$", "@", ",", ".", "|", "||", "&&", "!", "~", "+", "*", "?"},
	},
	{
		name: "js",
		run: func(src string, max int) []c12Tok {
			var l js.Lexer
			l.Init(src)
			var out []c12Tok
			for i, eois := 0, 0; i < max && eois < 2; i++ {
				t := l.Next()
				s, e := l.Pos()
				out = append(out, c12Tok{int(t), s, e, l.Line(), 0})
				if t == 0 {
					eois++
				}
			}
			return out
		},
		dict: []string{"var", "x", "=", "1", ";", "\n", "\r\n", " ", " ", "/", "/*", "*/", "//", "`", "${", "}", "{", "\"", "'", "\\", "\\u0041", "\\u{", "0x", "1e", ".", "...", "=>", "<", ">", "</", "/>", "#!", "<!--", "-->", "@", "#", "\xff", "\xef\xbb\xbf", "é", " ", "function", "class", "/re/g", "a/b/c", "`a${b}c`", "`\n`", "'\\\n'", "1n", "0b2", "08", "?.", "??="},
	},
	{
		name: "json",
		run: func(src string, max int) []c12Tok {
			var l json.Lexer
			l.Init(src)
			var out []c12Tok
			for i, eois := 0, 0; i < max && eois < 2; i++ {
				t := l.Next()
				s, e := l.Pos()
				out = append(out, c12Tok{int(t), s, e, l.Line(), 0})
				if t == 0 {
					eois++
				}
			}
			return out
		},
		gap:  regexp.MustCompile(`^[\t\r\n ]*$`),
		dict: []string{"{", "}", "[", "]", ":", ",", "\"", "\"a\"", "\\", "\\u00", "\"\\\"\"", "1", "-", "-1.5e3", "1e", "true", "false", "null", "nul", "/*", "*/", "/* x */", "/**/", "\n", "\r\n", " ", "\t", "\xff", "\xef\xbb\xbf", "é", "a", "A", "0", "00", ".", "+"},
	},
	{
		name: "test",
		run: func(src string, max int) []c12Tok {
			var l ptest.Lexer
			l.Init(src)
			var out []c12Tok
			for i, eois := 0, 0; i < max && eois < 2; i++ {
				t := l.Next()
				s, e := l.Pos()
				out = append(out, c12Tok{int(t), s, e, 0, 0})
				if t == 0 {
					eois++
				}
			}
			return out
		},
		dict: []string{"test", "decl1", "decl2", "{", "}", "(", ")", "[", "]", ".", "...", ",", ":", "-", "->", "+", "\\", "_", "foo_", "f_a", "/*", "*/", "/* /* */ */", "//", "\n", " ", "\t", "\x00", "'", "'a'", "'\\''", "<", ">", "<a>", "eval", "as", "if", "else", "@", "#", "!", "1", "0", "\xff", "\xef\xbb\xbf", "é", "a-b", "a--b"},
	},
	{
		name: "simple",
		run: func(src string, max int) []c12Tok {
			var l simple.Lexer
			l.Init(src)
			var out []c12Tok
			for i, eois := 0, 0; i < max && eois < 2; i++ {
				t := l.Next()
				s, e := l.Pos()
				out = append(out, c12Tok{int(t), s, e, l.Line(), 0})
				if t == 0 {
					eois++
				}
			}
			return out
		},
		gap:  regexp.MustCompile(`^[\n\r \t]*$`),
		dict: []string{"simple", "a", "b", "c", "\\", "\\a", "\\é", "\\_x1", "\n", " ", "\t", "\r", "\xff", "\xef\xbb\xbf", "é", "x", "\\́", "\\ⅰ"},
	},
}

func c12LexerByName(name string) *c12Lexer {
	for i := range c12Lexers {
		if c12Lexers[i].name == name {
			return &c12Lexers[i]
		}
	}
	return nil
}

func c12GenSrc(t *rapid.T, dict []string) []byte {
	n := rapid.IntRange(0, 14).Draw(t, "pieces")
	var sb strings.Builder
	for i := 0; i < n; i++ {
		switch rapid.IntRange(0, 9).Draw(t, "piece") {
		case 0:
			sb.WriteByte(byte(rapid.IntRange(0, 255).Draw(t, "byte")))
		case 1:
			sb.WriteString(string(rune(rapid.IntRange(0x80, 0x2fff).Draw(t, "rune"))))
		case 2:
			sb.WriteString("\n")
		default:
			sb.WriteString(dict[rapid.IntRange(0, len(dict)-1).Draw(t, "dict")])
		}
		if rapid.IntRange(0, 3).Draw(t, "sep") == 0 {
			sb.WriteString(" ")
		}
	}
	return []byte(sb.String())
}

func c12Gen(t *rapid.T) c12Case {
	lx := c12Lexers[rapid.IntRange(0, len(c12Lexers)-1).Draw(t, "lexer")]
	return c12Case{Lexer: lx.name, Src: c12GenSrc(t, lx.dict)}
}

// c12Invariants checks the token sequence against the source. hasLine/hasCol tell which
// accessors exist.
func c12Invariants(name string, src string, toks []c12Tok, hasLine, hasCol bool, gap *regexp.Regexp) (f *Failure, multiline, invalid bool) {
	show := func() string {
		var sb strings.Builder
		for _, x := range toks {
			fmt.Fprintf(&sb, "%d[%d,%d)@%d:%d ", x.tok, x.start, x.end, x.line, x.col)
		}
		return fmt.Sprintf("lexer %s, input %q, tokens (type[start,end)@line:col): %s", name, src, sb.String())
	}
	if len(toks) < 2 || toks[len(toks)-1].tok != 0 || toks[len(toks)-2].tok != 0 {
		return failf("no-eoi:"+name, "no end-of-input after %d calls of Next() on %d bytes (or it does not repeat): %s", len(toks), len(src), show()), false, false
	}
	prevEnd := 0
	for i, x := range toks {
		if x.start < 0 || x.end > len(src) || x.start > x.end {
			return failf("token-outside-input:"+name, "token #%d lies outside the input: %s", i, show()), false, false
		}
		if x.tok == 0 {
			if x.start != len(src) || x.end != len(src) {
				return failf("eoi-position:"+name, "end-of-input token #%d is at [%d,%d), input has %d bytes: %s", i, x.start, x.end, len(src), show()), false, false
			}
		} else if x.end == x.start {
			return failf("empty-token:"+name, "token #%d is empty: %s", i, show()), false, false
		}
		if x.start < prevEnd {
			return failf("tokens-overlap:"+name, "token #%d starts at %d before the previous token ended (%d): %s", i, x.start, prevEnd, show()), false, false
		}
		if gap != nil {
			between := src[prevEnd:x.start]
			if prevEnd == 0 {
				between = strings.TrimPrefix(between, "\xef\xbb\xbf") // a byte-order mark is skipped
			}
			if !gap.MatchString(between) {
				return failf("gap-not-space:"+name, "the text %q between tokens #%d and #%d is not matched by the skipped space rules: %s", between, i-1, i, show()), false, false
			}
		}
		if hasLine {
			want := 1 + strings.Count(src[:x.start], "\n")
			if x.line != want {
				return failf("token-line:"+name, "token #%d starts at byte %d on line %d but Line() = %d: %s", i, x.start, want, x.line, show()), false, false
			}
		}
		if hasCol {
			want := x.start - strings.LastIndexByte(src[:x.start], '\n')
			if x.col != want {
				return failf("token-column:"+name, "token #%d starts at byte %d, column %d (1-based, bytes) but Column() = %d: %s", i, x.start, want, x.col, show()), false, false
			}
		}
		if strings.Contains(src[x.start:x.end], "\n") {
			multiline = true
		}
		if x.tok == 1 {
			invalid = true
		}
		if x.end > prevEnd {
			prevEnd = x.end
		}
		if x.tok == 0 {
			break
		}
	}
	return nil, multiline, invalid
}

func c12Check(c c12Case, r *ev.Recorder) *Failure {
	lx := c12LexerByName(c.Lexer)
	if lx == nil {
		return nil
	}
	src := string(c.Src)
	toks := lx.run(src, len(src)+3)
	r.Eval(1)
	hasLine := c.Lexer != "test"
	hasCol := c.Lexer == "tm"
	f, multiline, invalid := c12Invariants(c.Lexer, src, toks, hasLine, hasCol, lx.gap)
	if f != nil {
		return f
	}
	r.Class("lexer:" + c.Lexer)
	if multiline || invalid {
		r.Nontrivial(c.Lexer + "\x00" + src)
		if multiline {
			r.Class("multi-line-token")
		}
		if invalid {
			r.Class("invalid-token")
		}
		if r.WantSample() && len(src) < 60 {
			r.Sample(map[string]any{"lexer": c.Lexer, "input": src, "tokens": len(toks)})
		}
	}
	return nil
}

func TestC12(t *testing.T) {
	p := &prop[c12Case]{
		ID:   "C12",
		Rule: "shipped lexers tm, js, json, test, simple on byte strings assembled from 0..14 pieces: per-lexer dictionary entries (token lexemes, comment/string/code-block/template delimiters incl. unterminated ones, escapes followed by newlines, BOM, CR/LF), arbitrary single bytes, random runes U+0080..U+2FFF, newlines. Invariants: end-of-input is reached within len(src)+3 calls and repeats at (len,len); every other token is non-empty and inside the input; tokens are ordered and do not overlap; for tm/json/simple the text between returned tokens (after a BOM) matches the lexer's skipped whitespace rule; Line() (all but test) is 1 + number of newlines before the token's first byte; Column() (tm) is the 1-based byte distance from the line start. Non-trivial: input with a token spanning a newline or an invalid token; distinct by (lexer, input).",
		Assume: []string{"gap text is checked only for lexers whose skipped rules are plain whitespace (tm: comments are injected and therefore returned; js/test: stateful lexers)"},
		Quick: 16000, Thorough: 400000,
		Gen:   c12Gen,
		Check: c12Check,
	}
	p.run(t)
}

// FuzzC12 is the native fuzz entry (thorough tier): byte 0 selects the lexer.
func FuzzC12(f *testing.F) {
	for i := range c12Lexers {
		f.Add(append([]byte{byte(i)}, []byte(strings.Join(c12Lexers[i].dict[:8], " "))...))
	}
	f.Add([]byte{0})
	f.Fuzz(func(t *testing.T, data []byte) {
		if len(data) == 0 {
			return
		}
		c := c12Case{Lexer: c12Lexers[int(data[0])%len(c12Lexers)].name, Src: data[1:]}
		rec := ev.New("C12")
		if fl := guard(func() *Failure { return c12Check(c, rec) }); fl != nil {
			known := loadKnown("C12")
			if _, ok := known[fl.Key]; ok {
				return
			}
			t.Fatalf("%s: %s", fl.Key, fl.Msg)
		}
	})
}
