package props

import (
	"fmt"
	"regexp"
	"strconv"
	"strings"
	"testing"

	"github.com/inspirer/textmapper/util/diff"
	"pgregory.net/rapid"

	"verif/harness/internal/ev"
)

// C27 — line diffs are correct and minimal.
// Oracle: LCS length by quadratic DP over the lines; a unified-diff applier written here.

type c27Case struct {
	A string `json:"a"`
	B string `json:"b"`
}

var c27Alphabet = []string{"a", "b", "c", "", "x y", "d"}

func c27Lines(t *rapid.T, label string, max int) []string {
	n := rapid.IntRange(0, max).Draw(t, label+"n")
	k := rapid.IntRange(2, len(c27Alphabet)).Draw(t, label+"k")
	ret := make([]string, n)
	for i := range ret {
		ret[i] = c27Alphabet[rapid.IntRange(0, k-1).Draw(t, label)]
	}
	return ret
}

func c27Gen(t *rapid.T) c27Case {
	mode := rapid.IntRange(0, 9).Draw(t, "mode")
	var a, b []string
	switch {
	case mode < 5: // base + edit script
		max := 40
		if mode == 4 {
			max = 90 // long runs => elision of >14 lines
		}
		a = c27Lines(t, "a", max)
		if mode == 4 {
			// make lines mostly unique so that long equal/changed runs appear
			for i := range a {
				a[i] = fmt.Sprintf("l%d", i)
			}
		}
		b = append([]string(nil), a...)
		edits := rapid.IntRange(0, 5).Draw(t, "edits")
		for e := 0; e < edits; e++ {
			pos := rapid.IntRange(0, len(b)).Draw(t, "pos")
			switch rapid.IntRange(0, 2).Draw(t, "ed") {
			case 0: // insert run
				run := c27Lines(t, "ins", 4)
				if mode == 4 && rapid.Bool().Draw(t, "longins") {
					for i := 0; i < 16; i++ {
						run = append(run, fmt.Sprintf("n%d_%d", e, i))
					}
				}
				b = append(b[:pos:pos], append(run, b[pos:]...)...)
			case 1: // delete run
				ln := rapid.IntRange(0, 4).Draw(t, "dl")
				if mode == 4 && rapid.Bool().Draw(t, "longdel") {
					ln = 17
				}
				if pos+ln > len(b) {
					ln = len(b) - pos
				}
				b = append(b[:pos:pos], b[pos+ln:]...)
			case 2: // replace one line
				if pos < len(b) {
					b[pos] = c27Alphabet[rapid.IntRange(0, len(c27Alphabet)-1).Draw(t, "rep")]
				}
			}
		}
	default: // unrelated
		a = c27Lines(t, "a", 24)
		b = c27Lines(t, "b", 24)
	}
	// near-equal lines: the same text with a trailing CR, trailing or leading blank, or in upper
	// case is a different line (CRLF against LF files, whitespace-only changes)
	if rapid.IntRange(0, 3).Draw(t, "variants") == 0 {
		for _, lines := range [][]string{a, b} {
			for i := range lines {
				switch rapid.IntRange(0, 11).Draw(t, "variant") {
				case 0, 1:
					lines[i] += "\r"
				case 2:
					lines[i] += " "
				case 3:
					lines[i] += "\t"
				case 4:
					lines[i] = " " + lines[i]
				case 5:
					lines[i] = strings.ToUpper(lines[i])
				}
			}
		}
		if rapid.IntRange(0, 3).Draw(t, "crlfFile") == 0 { // one side entirely CRLF
			for i := range b {
				b[i] = strings.TrimSuffix(b[i], "\r") + "\r"
			}
		}
	}
	ca, cb := strings.Join(a, "\n"), strings.Join(b, "\n")
	if rapid.IntRange(0, 3).Draw(t, "nla") == 0 && len(a) > 0 {
		ca += "\n"
	}
	if rapid.IntRange(0, 3).Draw(t, "nlb") == 0 && len(b) > 0 {
		cb += "\n"
	}
	return c27Case{ca, cb}
}

func c27LCS(a, b []string) int {
	prev := make([]int, len(b)+1)
	cur := make([]int, len(b)+1)
	for i := 1; i <= len(a); i++ {
		for j := 1; j <= len(b); j++ {
			switch {
			case a[i-1] == b[j-1]:
				cur[j] = prev[j-1] + 1
			case prev[j] >= cur[j-1]:
				cur[j] = prev[j]
			default:
				cur[j] = cur[j-1]
			}
		}
		prev, cur = cur, prev
	}
	return prev[len(b)]
}

var c27Hunk = regexp.MustCompile(`^@@ -(\d+),(\d+) \+(\d+),(\d+) @@$`)
var c27Skip = regexp.MustCompile(`^  \.\.\. (\d+) lines skipped \.\.\.$`)

func c27Check(c c27Case, r *ev.Recorder) *Failure {
	out := diff.LineDiff(c.A, c.B)
	r.Eval(1)
	show := func() string { return fmt.Sprintf("a=%q b=%q diff=%q", c.A, c.B, out) }
	if (out == "") != (c.A == c.B) {
		return failf("empty-iff-equal", "LineDiff empty=%v but texts equal=%v: %s", out == "", c.A == c.B, show())
	}
	if out == "" {
		r.Class("equal")
		return nil
	}
	a, b := strings.Split(c.A, "\n"), strings.Split(c.B, "\n")
	lcs := c27LCS(a, b)
	wantEdits := len(a) + len(b) - 2*lcs

	if !strings.HasSuffix(out, "\n") {
		return failf("format", "diff does not end with a newline: %s", show())
	}
	lines := strings.Split(strings.TrimSuffix(out, "\n"), "\n")
	type hunk struct {
		l, ls, rr, rs int
		body          []string
	}
	var hunks []*hunk
	for _, ln := range lines {
		if m := c27Hunk.FindStringSubmatch(ln); m != nil {
			h := &hunk{}
			h.l, _ = strconv.Atoi(m[1])
			h.ls, _ = strconv.Atoi(m[2])
			h.rr, _ = strconv.Atoi(m[3])
			h.rs, _ = strconv.Atoi(m[4])
			hunks = append(hunks, h)
			continue
		}
		if len(hunks) == 0 {
			return failf("format", "diff does not start with a hunk header: %s", show())
		}
		if ln == "" || (ln[0] != ' ' && ln[0] != '-' && ln[0] != '+') {
			return failf("format", "unexpected diff line %q: %s", ln, show())
		}
		hunks[len(hunks)-1].body = append(hunks[len(hunks)-1].body, ln)
	}
	if len(hunks) == 0 {
		return failf("format", "texts differ but the diff has no hunk: %s", show())
	}
	edits, elided := 0, false
	for _, h := range hunks {
		lcount, rcount := 0, 0
		for _, ln := range h.body {
			n := 1
			if m := c27Skip.FindStringSubmatch(ln[1:]); m != nil {
				n, _ = strconv.Atoi(m[1])
				elided = true
			}
			switch ln[0] {
			case '-':
				edits += n
				lcount += n
			case '+':
				edits += n
				rcount += n
			default:
				lcount += n
				rcount += n
			}
		}
		hunkElided := false
		for _, ln := range h.body {
			if c27Skip.MatchString(ln[1:]) {
				hunkElided = true
			}
		}
		// A hunk with an elided run cannot be applied anyway and util/diff's own test pins a
		// header that counts the marker line; header/body agreement is asserted only for hunks
		// that are rendered in full.
		if !hunkElided && (lcount != h.ls || rcount != h.rs) {
			return failf("hunk-size", "hunk header -%d,%d +%d,%d does not match its body (%d left, %d right lines): %s", h.l, h.ls, h.rr, h.rs, lcount, rcount, show())
		}
	}
	if edits != wantEdits {
		return failf("minimal", "diff has %d inserted+deleted lines, the minimum is %d (LCS=%d of %d,%d lines): %s", edits, wantEdits, lcs, len(a), len(b), show())
	}
	if elided {
		r.Class("elided-long-run")
		r.Nontrivial(c.A + "\x00" + c.B)
		return nil
	}
	// Apply the hunks to a at their stated positions.
	var res []string
	ai := 0 // next unconsumed line of a (0-based)
	for hi, h := range hunks {
		start := h.l - 1
		if h.ls == 0 {
			start = h.l // unified format: a hunk without left lines sits after line l
		}
		if start < ai || start > len(a) {
			return failf("hunk-position", "hunk %d starts at left line %d which is outside the remaining text (next unconsumed line %d, %d lines): %s", hi, h.l, ai+1, len(a), show())
		}
		res = append(res, a[ai:start]...)
		ai = start
		if h.ls > 0 || h.rs > 0 {
			wantR := len(res) + 1
			if h.rs == 0 {
				wantR = len(res)
			}
			if h.rr != wantR {
				return failf("hunk-right-position", "hunk %d claims right line %d but applying the previous hunks puts it at %d: %s", hi, h.rr, wantR, show())
			}
		}
		for _, ln := range h.body {
			switch ln[0] {
			case ' ', '-':
				if ai >= len(a) || a[ai] != ln[1:] {
					got := "<end of text>"
					if ai < len(a) {
						got = a[ai]
					}
					return failf("hunk-apply", "hunk %d: line %q does not match line %d of the first text (%q): %s", hi, ln, ai+1, got, show())
				}
				if ln[0] == ' ' {
					res = append(res, a[ai])
				}
				ai++
			case '+':
				res = append(res, ln[1:])
			}
		}
	}
	res = append(res, a[ai:]...)
	if strings.Join(res, "\n") != c.B {
		return failf("hunk-apply-result", "applying the hunks to the first text gives %q, not the second text: %s", strings.Join(res, "\n"), show())
	}
	if len(hunks) >= 2 {
		r.Class("multi-hunk")
	} else {
		r.Class("single-hunk")
	}
	if lcs > 0 && wantEdits >= 2 {
		r.Nontrivial(c.A + "\x00" + c.B)
		if r.WantSample() && len(hunks) >= 2 && len(c.A) < 120 {
			r.Sample(map[string]any{"a": c.A, "b": c.B, "diff": out})
		}
	}
	return nil
}

func TestC27(t *testing.T) {
	p := &prop[c27Case]{
		ID:   "C27",
		Rule: "pairs of texts over a 6-line alphabet (incl. the empty line), 0..40 lines (up to ~110 with long unique-line runs that trigger the >14-line elision), generated as base+edit script (inserted/deleted runs, replaced lines) or as unrelated texts, with trailing-newline variants; in a quarter of the pairs half of the lines are replaced by near-equal ones (trailing CR, trailing/leading blank, upper case; sometimes one side entirely CRLF); plus exhaustive enumeration of all pairs of texts with <=4 lines over 3 symbols. Oracle: quadratic LCS and a unified-diff applier. Non-trivial: texts differ, share at least one line (LCS>0) and need >=2 edits (or contain an elided run); distinct by the text pair.",
		Assume: []string{"a hunk with zero left lines is positioned after the stated line (unified-diff convention)", "the right-hand line number of each hunk is checked too (it is part of 'hunks apply ... to produce the second')"},
		Quick: 100000, Thorough: 6000000,
		Gen:   c27Gen,
		Check: c27Check,
		Pre: func(r *ev.Recorder, run func(c c27Case) *Failure) *Failure {
			s, shards := shard()
			var texts []string
			syms := []string{"a", "b", ""}
			var rec func(prefix []string, depth int)
			rec = func(prefix []string, depth int) {
				if len(prefix) > 0 {
					texts = append(texts, strings.Join(prefix, "\n"))
				}
				if depth == 4 {
					return
				}
				for _, s := range syms {
					rec(append(append([]string(nil), prefix...), s), depth+1)
				}
			}
			rec(nil, 0)
			cnt := 0
			for i, a := range texts {
				if i%shards != s {
					continue
				}
				for _, b := range texts {
					if f := run(c27Case{a, b}); f != nil {
						return f
					}
					cnt++
				}
			}
			r.AddExtra("exhaustive_pairs_le4_lines_3_symbols", int64(cnt))
			r.Exhaustive(true)
			return nil
		},
	}
	p.run(t)
}
