package props

import (
	"bufio"
	"bytes"
	"crypto/sha1"
	"encoding/json"
	"flag"
	"fmt"
	"log"
	"os"
	"path/filepath"
	"runtime/debug"
	"sort"
	"strconv"
	"strings"
	"testing"

	"pgregory.net/rapid"

	"verif/harness/internal/ev"
)

// Failure is a counterexample verdict produced by a pure check function.
type Failure struct {
	Key string // specific signature, matched against known_findings.jsonl
	Msg string
}

func failf(key, format string, args ...any) *Failure {
	return &Failure{Key: key, Msg: fmt.Sprintf(format, args...)}
}

// fatalLog is the panic value raised instead of log.Fatal's os.Exit.
type fatalLog struct{ msg string }

type trapWriter struct{}

func (trapWriter) Write(p []byte) (int, error) {
	if bytes.HasPrefix(p, []byte("WARNING")) {
		return len(p), nil
	}
	// log.Fatal* writes the message and then calls os.Exit(1). Panicking here turns the process
	// exit into a recoverable, attributable panic (the logger unlocks its mutex via defer).
	panic(fatalLog{strings.TrimSpace(string(p))})
}

func init() {
	log.SetFlags(0)
	log.SetOutput(trapWriter{})
}

func verifDir() string {
	if d := os.Getenv("VERIF_DIR"); d != "" {
		return d
	}
	return "/verif"
}

func envInt(name string, def int) int {
	if v := os.Getenv(name); v != "" {
		if n, err := strconv.Atoi(v); err == nil {
			return n
		}
	}
	return def
}

func tier() string {
	if os.Getenv("VERIF_TIER") == "thorough" {
		return "thorough"
	}
	return "quick"
}

func seed() int {
	s := envInt("VERIF_SEED", 1)
	if s == 0 {
		s = 1
	}
	if s < 0 {
		s = -s
	}
	return s
}

func shard() (int, int) {
	n := envInt("VERIF_SHARDS", 1)
	if n < 1 {
		n = 1
	}
	return envInt("VERIF_SHARD", 0), n
}

// cases returns the per-shard number of rapid checks for the current tier.
func cases(quick, thorough int) int {
	n := quick
	if tier() == "thorough" {
		n = thorough
	}
	if m := envInt("VERIF_CASES", 0); m > 0 {
		n = m
	}
	_, shards := shard()
	n = (n + shards - 1) / shards
	if n < 1 {
		n = 1
	}
	return n
}

type knownFinding struct {
	Property string `json:"property"`
	Status   string `json:"status"`
	Key      string `json:"key"`
	What     string `json:"what"`
	Commit   string `json:"commit,omitempty"`
}

func loadKnown(id string) map[string]knownFinding {
	ret := map[string]knownFinding{}
	f, err := os.Open(filepath.Join(verifDir(), "known_findings.txt"))
	if err != nil {
		return ret
	}
	defer f.Close()
	sc := bufio.NewScanner(f)
	sc.Buffer(make([]byte, 1<<20), 1<<20)
	for sc.Scan() {
		line := strings.TrimSpace(sc.Text())
		rest, ok := strings.CutPrefix(line, "known: property="+id+" key=")
		if !ok {
			continue
		}
		// key is a Go/JSON quoted string
		q, err := strconv.QuotedPrefix(rest)
		if err != nil {
			continue
		}
		key, err := strconv.Unquote(q)
		if err != nil {
			continue
		}
		ret[key] = knownFinding{Property: id, Status: "known", Key: key, What: strings.TrimSpace(rest[len(q):])}
	}
	return ret
}

// guard runs f converting panics (incl. trapped log.Fatal) into failures.
func guard(f func() *Failure) (fail *Failure) {
	defer func() {
		if r := recover(); r != nil {
			if fl, ok := r.(fatalLog); ok {
				fail = &Failure{Key: "log.Fatal:" + firstWords(fl.msg, 6), Msg: "process would exit via log.Fatal: " + fl.msg}
				return
			}
			st := string(debug.Stack())
			fail = &Failure{Key: "panic:" + panicSite(st), Msg: fmt.Sprintf("panic: %v\n%s", r, trimStack(st))}
		}
	}()
	return f()
}

func firstWords(s string, n int) string {
	f := strings.Fields(s)
	if len(f) > n {
		f = f[:n]
	}
	return strings.Join(f, " ")
}

// panicSite extracts the first textmapper frame (function name) below the panic.
func panicSite(stack string) string {
	lines := strings.Split(stack, "\n")
	seenPanic := false
	for _, l := range lines {
		if strings.HasPrefix(l, "panic(") {
			seenPanic = true
			continue
		}
		if seenPanic && strings.HasPrefix(l, "github.com/inspirer/textmapper/") {
			if i := strings.LastIndex(l, "("); i > 0 {
				l = l[:i]
			}
			return strings.TrimPrefix(l, "github.com/inspirer/textmapper/")
		}
	}
	for _, l := range lines {
		if strings.HasPrefix(l, "github.com/inspirer/textmapper/") {
			if i := strings.LastIndex(l, "("); i > 0 {
				l = l[:i]
			}
			return strings.TrimPrefix(l, "github.com/inspirer/textmapper/")
		}
	}
	return "unknown"
}

func trimStack(st string) string {
	lines := strings.Split(st, "\n")
	if len(lines) > 40 {
		lines = lines[:40]
	}
	return strings.Join(lines, "\n")
}

type replayFile struct {
	Property string          `json:"property"`
	Key      string          `json:"key"`
	Msg      string          `json:"msg"`
	Test     string          `json:"test,omitempty"`
	Case     json.RawMessage `json:"case"`
}

// currentTestName is recorded in replay files so that ./check --replay picks the right test.
var currentTestName string

// prop describes one generated-input check.
type prop[C any] struct {
	ID       string
	Rule     string
	Assume   []string
	Quick    int // total rapid checks (all shards)
	Thorough int
	Gen      func(t *rapid.T) C
	Check    func(c C, r *ev.Recorder) *Failure
	// Pre runs once per process before the random search (exhaustive sub-spaces, fixed
	// regression cases); it returns the first failure found.
	Pre func(r *ev.Recorder, run func(c C) *Failure) *Failure
	// Inflight makes the runner persist every case before executing it (crash attribution).
	Inflight bool
}

func (p *prop[C]) run(t *testing.T) {
	currentTestName = t.Name()
	rec := ev.New(p.ID)
	rec.Rule(p.Rule)
	for _, a := range p.Assume {
		rec.Assume(a)
	}
	known := loadKnown(p.ID)
	failed, completed := false, false
	shardIdx, _ := shard()

	// exec applies the check and the known-findings filter.
	inflight := ""
	if p.Inflight {
		inflight = os.Getenv("VERIF_INFLIGHT")
	}
	exec := func(c C) *Failure {
		if inflight != "" {
			// An unrecoverable runtime error (stack overflow, concurrent map write) kills the
			// process: leave the case behind so that the driver can attribute the death.
			cs, _ := json.Marshal(c)
			data, _ := json.Marshal(replayFile{Property: p.ID, Key: "process-died", Msg: "the process died (fatal runtime error) while checking this case", Test: currentTestName, Case: cs})
			os.WriteFile(inflight, data, 0o644)
		}
		f := guard(func() *Failure { return p.Check(c, rec) })
		if f != nil {
			if _, ok := known[f.Key]; ok {
				rec.KnownHit(f.Key)
				return nil
			}
		}
		return f
	}

	defer func() {
		if out := os.Getenv("VERIF_SHARD_OUT"); out != "" {
			if err := rec.Write(out, failed, completed); err != nil {
				fmt.Printf("EVIDENCE-ERROR %v\n", err)
			}
		}
		if failed {
			path := writeReplay(p.ID, rec)
			fmt.Printf("VIOLATION property=%s replay=%s\n", p.ID, path)
			fmt.Printf("VIOLATION-DETAIL key=%q %s\n", rec.FailKey, oneLine(rec.FailMsg, 600))
		}
	}()

	// Replay of one file.
	if path := os.Getenv("VERIF_REPLAY"); path != "" {
		data, err := os.ReadFile(path)
		if err != nil {
			t.Fatalf("cannot read replay: %v", err)
		}
		var rf replayFile
		if err := json.Unmarshal(data, &rf); err != nil {
			t.Fatalf("bad replay file: %v", err)
		}
		var c C
		if err := json.Unmarshal(rf.Case, &c); err != nil {
			t.Fatalf("bad replay case: %v", err)
		}
		f := guard(func() *Failure { return p.Check(c, rec) })
		completed = true
		if f != nil {
			if k, ok := known[f.Key]; ok {
				fmt.Printf("KNOWN-FINDING: property=%s %s\n", p.ID, k.What)
				return
			}
			rec.Fail(f.Key, c, f.Msg)
			failed = true
			t.Errorf("replay fails: %s", f.Msg)
		}
		return
	}

	// Saved counterexamples (regression tier) — shard 0 only.
	if shardIdx == 0 {
		files, _ := filepath.Glob(filepath.Join(verifDir(), "replay", p.ID, "*.json"))
		sort.Strings(files)
		for _, file := range files {
			data, err := os.ReadFile(file)
			if err != nil {
				continue
			}
			var rf replayFile
			var c C
			if json.Unmarshal(data, &rf) != nil || (rf.Test != "" && rf.Test != currentTestName) || json.Unmarshal(rf.Case, &c) != nil {
				continue
			}
			rec.Class("replayed-saved-case")
			f := guard(func() *Failure { return p.Check(c, rec) })
			if f != nil {
				if k, ok := known[f.Key]; ok {
					fmt.Printf("KNOWN-FINDING: property=%s %s\n", p.ID, k.What)
					rec.KnownHit(f.Key)
					continue
				}
				rec.Fail(f.Key, c, f.Msg)
				failed = true
				t.Errorf("saved case %s fails: %s", file, f.Msg)
				return
			}
		}
	}

	if p.Pre != nil {
		if f := p.Pre(rec, func(c C) *Failure {
			f := exec(c)
			if f != nil {
				rec.Fail(f.Key, c, f.Msg)
			}
			return f
		}); f != nil {
			failed = true
			t.Errorf("%s", f.Msg)
			return
		}
	}

	if p.Gen != nil {
		n := cases(p.Quick, p.Thorough)
		flag.Set("rapid.checks", strconv.Itoa(n))
		flag.Set("rapid.seed", strconv.Itoa(seed()*1000+shardIdx+1))
		flag.Set("rapid.nofailfile", "true")
		flag.Set("rapid.shrinktime", "45s")
		func() {
			defer func() {
				if t.Failed() {
					failed = true
				}
			}()
			rapid.Check(t, func(rt *rapid.T) {
				c := p.Gen(rt)
				if f := exec(c); f != nil {
					rec.Fail(f.Key, c, f.Msg)
					rt.Fatalf("%s", f.Msg)
				}
			})
		}()
		if t.Failed() {
			failed = true
			return
		}
	}
	completed = true
}

func oneLine(s string, max int) string {
	s = strings.ReplaceAll(s, "\n", " | ")
	if len(s) > max {
		s = s[:max] + "..."
	}
	return s
}

func writeReplay(id string, rec *ev.Recorder) string {
	dir := os.Getenv("VERIF_FAIL_DIR")
	if dir == "" {
		dir = filepath.Join(verifDir(), "replay", "_new", id)
	}
	os.MkdirAll(dir, 0o755)
	cs, _ := json.Marshal(rec.FailCase)
	rf := replayFile{Property: id, Key: rec.FailKey, Msg: rec.FailMsg, Test: currentTestName, Case: cs}
	data, _ := json.MarshalIndent(rf, "", " ")
	sum := sha1.Sum(cs)
	path := filepath.Join(dir, fmt.Sprintf("%s-%x.json", id, sum[:6]))
	os.WriteFile(path, data, 0o644)
	return path
}
