package props

import (
	"encoding/json"
	"fmt"
	"testing"

	"github.com/inspirer/textmapper/lalr"
	"pgregory.net/rapid"

	"verif/harness/internal/ev"
	"verif/harness/internal/oracle"
	"verif/harness/internal/tabint"
)

// C06 — parser state minimisation preserves behaviour from every entry point.
// Oracle: the unminimised tables of the same grammar (differential), both entered at state =
// input index and run until FinalStates[input], exactly like the generated entry functions do.

type c06Case struct {
	G    gSpec   `json:"g"`
	Seed int     `json:"seed"`
	Extra [][]int `json:"extra,omitempty"`
}

// c06Duplicate appends a renamed copy of the rules of nonterminal nt (and everything it
// references) so that mergeable states exist.
func c06Duplicate(g *gSpec) {
	if g.N*2 > 12 {
		return
	}
	n := g.N
	var extra []gRule
	for _, r := range g.Rules {
		nr := gRule{L: r.L + n, R: make([]int, len(r.R)), Prec: r.Prec, Act: r.Act, Typ: r.Typ, Flag: r.Flag}
		for i, s := range r.R {
			if s >= g.T {
				nr.R[i] = s + n
			} else {
				nr.R[i] = s
			}
		}
		extra = append(extra, nr)
	}
	g.N = 2 * n
	g.Rules = append(g.Rules, extra...)
	// glue: a new alternative of the first input using the copy behind a distinguishing terminal
	g.Rules = append(g.Rules, gRule{L: g.Inputs[0].NT, R: []int{1, g.Inputs[0].NT + n}})
}

func c06Gen(t *rapid.T) c06Case {
	g := genPrecGSpec(t, 30)
	// rule attributes from small pools: classes both merge and split
	for i := range g.Rules {
		switch rapid.IntRange(0, 5).Draw(t, "attr") {
		case 0:
			g.Rules[i].Act = rapid.IntRange(0, 2).Draw(t, "act")
		case 1:
			g.Rules[i].Typ = rapid.IntRange(0, 2).Draw(t, "typ")
		case 2:
			g.Rules[i].Flag = []string{"", "F", "G"}[rapid.IntRange(0, 2).Draw(t, "flag")]
		}
	}
	if rapid.IntRange(0, 2).Draw(t, "dup") == 0 {
		c06Duplicate(&g)
	}
	// more inputs (distinct nonterminals)
	if rapid.IntRange(0, 1).Draw(t, "moreInputs") == 0 {
		used := map[int]bool{}
		for _, in := range g.Inputs {
			used[in.NT] = true
		}
		k := rapid.IntRange(1, 3).Draw(t, "extraInputs")
		for i := 0; i < k && len(g.Inputs) < 4; i++ {
			nt := rapid.IntRange(g.T, g.T+g.N-1).Draw(t, "extraInputNT")
			if !used[nt] {
				used[nt] = true
				g.Inputs = append(g.Inputs, gInput{NT: nt, Eoi: rapid.IntRange(0, 2).Draw(t, "extraEoi") > 0})
			}
		}
	}
	return c06Case{G: g, Seed: rapid.IntRange(0, 1<<30).Draw(t, "seed")}
}

type ruleClass struct {
	lhs, ln, act, typ int
	flag          string
}

func c06Check(c c06Case, r *ev.Recorder) *Failure {
	g := c.G
	if !g.valid() {
		return nil
	}
	lg := g.toLalr()
	t0, _ := lalr.Compile(lg, lalr.Options{})
	// make the grammar "compile": expect exactly the conflicts it has
	lg.ExpectSR, lg.ExpectRR = t0.SR, t0.RR
	tu, err := lalr.Compile(lg, lalr.Options{})
	if err != nil {
		return failf("compile-with-matching-expect", "grammar does not compile although %%expect matches the reported counts: %v; grammar: %s", err, g.String())
	}
	tm, err := lalr.Compile(lg, lalr.Options{MinimizeDFA: true})
	if err != nil {
		return failf("compile-minimized", "minimized compile fails: %v; grammar: %s", err, g.String())
	}
	classOf := func(t *lalr.Tables, rule int) ruleClass {
		rl := lg.Rules[rule]
		fl := ""
		if len(rl.Flags) > 0 {
			fl = rl.Flags[0]
		}
		return ruleClass{int(rl.LHS), t.RuleLen[rule], rl.Action, rl.Type, fl}
	}
	if len(tm.FinalStates) != len(tu.FinalStates) {
		return failf("final-states-len", "FinalStates length changed")
	}
	if f := checkFromToSorted(tm); f != nil {
		f.Msg += "; grammar: " + g.String()
		return f
	}
	cfg := g.toCFG()
	u2m := map[int]int{}
	mergedVisited := false
	m2u := map[int]int{}
	for ii, inp := range g.Inputs {
		strs, _ := tokenStrings(cfg, inp.NT, c.Seed, 400)
		strs = append(strs, c.Extra...)
		for _, toks := range strs {
			ok := true
			for _, tk := range toks {
				if tk < 1 || tk >= g.T {
					ok = false
				}
			}
			if !ok {
				continue
			}
			ru := tabint.Run(tu, tabint.Opts{Trace: true, NumRules: len(lg.Rules)}, ii, toks)
			rm := tabint.Run(tm, tabint.Opts{Trace: true, NumRules: len(lg.Rules)}, ii, toks)
			r.Eval(1)
			where := fmt.Sprintf("input %d (%s%s), tokens [%s]; grammar: %s", ii, g.symName(inp.NT), map[bool]string{true: "", false: " no-eoi"}[inp.Eoi], tokensString(&g, toks), g.String())
			if ru.Overrun != rm.Overrun {
				return failf("termination-differs", "unminimized parser overrun=%v, minimized overrun=%v on %s", ru.Overrun, rm.Overrun, where)
			}
			if ru.Overrun {
				continue
			}
			if ru.Accept != rm.Accept || ru.ErrTok != rm.ErrTok {
				return failf("outcome-differs", "unminimized: accept=%v error at %d; minimized (states %d -> %d): accept=%v error at %d on %s", ru.Accept, ru.ErrTok, tu.NumStates, tm.NumStates, rm.Accept, rm.ErrTok, where)
			}
			if len(ru.Events) != len(rm.Events) {
				return failf("trace-length-differs", "unminimized parser makes %d steps, minimized %d on %s", len(ru.Events), len(rm.Events), where)
			}
			for i := range ru.Events {
				a, b := ru.Events[i], rm.Events[i]
				if a.Kind != b.Kind {
					return failf("trace-step-kind", "step %d: unminimized %c, minimized %c on %s", i, a.Kind, b.Kind, where)
				}
				switch a.Kind {
				case 's', 'e':
					if a != b {
						return failf("trace-shift", "step %d: unminimized %c(%d,%d), minimized %c(%d,%d) on %s", i, a.Kind, a.A, a.B, b.Kind, b.A, b.B, where)
					}
				case 'r':
					if a.A < len(lg.Rules) && b.A < len(lg.Rules) {
						if classOf(tu, a.A) != classOf(tm, b.A) {
							return failf("trace-reduce-class", "step %d: unminimized reduces rule %d %+v, minimized rule %d %+v on %s", i, a.A, classOf(tu, a.A), b.A, classOf(tm, b.A), where)
						}
					} else if a != b {
						return failf("trace-reduce-lookahead-rule", "step %d differs on %s", i, where)
					}
				}
			}
			if len(ru.States) == len(rm.States) {
				for i := range ru.States {
					if prev, ok := m2u[rm.States[i]]; ok && prev != ru.States[i] {
						mergedVisited = true
					}
					m2u[rm.States[i]] = ru.States[i]
					u2m[ru.States[i]] = rm.States[i]
				}
			}
		}
	}
	if tm.NumStates > tu.NumStates {
		return failf("more-states", "minimization increased the number of states")
	}
	if tm.NumStates < tu.NumStates {
		r.Class("states-decreased")
		if mergedVisited {
			js, _ := json.Marshal(c.G)
			r.Nontrivial(string(js))
			if r.WantSample() {
				r.Sample(map[string]any{"grammar": g.String(), "states": tu.NumStates, "minimized": tm.NumStates})
			}
		}
	} else {
		r.Class("nothing-to-merge")
	}
	if len(g.Inputs) > 1 {
		r.Class("multi-input")
	}
	_ = oracle.ErrTooLarge
	return nil
}

func TestC06(t *testing.T) {
	p := &prop[c06Case]{
		ID:   "C06",
		Rule: "grammars from the C01/C04 generators (family seeds, random, 30% with precedence), rules carrying Action/Type/Flags from pools of 3 values, 1/3 extended with a renamed copy of all rules (so mergeable states exist), up to 4 distinct inputs (eoi and no-eoi); %expect set to the reported conflict counts; compiled with MinimizeDFA off and on. For each input both tables are run from state=input index to FinalStates[input] on all short strings (<=400), 24 random sentences, near-misses and random strings; the traces (shift terminal/position, reduce class = lhs,length,action,type,flags, accept/error position, termination) must be equal. Non-trivial: NumStates decreased and a run visited a minimized state that stands for two different unminimized states; distinct by grammar JSON.",
		Assume: []string{"runtime-lookahead (synthetic) inputs are covered through C08's generator, not here"},
		Quick: 9000, Thorough: 90000,
		Gen:   c06Gen,
		Check: c06Check,
	}
	p.run(t)
}
