package props

import (
	"fmt"
	"sort"
	"strings"

	"pgregory.net/rapid"
)

// egSpec is a grammar in Textmapper's extended notation (optional parts, nested choices, lists
// with separators, "-> Node" annotations at nonterminal / alternative / nested level) together
// with everything needed to derive sentences whose structure is known.

type egPart struct {
	K    string   `json:"k"` // t | n | opt | grp | list
	Sym  int      `json:"sym,omitempty"`
	Alts []*egAlt `json:"alts,omitempty"` // grp: alternatives; opt, list: exactly one (content / element)
	Sep  int      `json:"sep,omitempty"`  // list separator terminal, 0 = none
	Sep2 int      `json:"sep2,omitempty"` // second terminal of a two-token separator (needs Sep)
	Plus bool     `json:"plus,omitempty"`
	Name string   `json:"name,omitempty"` // alias: name=part
	Set  []int    `json:"set,omitempty"`  // set: terminals; la: predicate nonterminals (negative = negated: -1-nt)
	Neg  bool     `json:"neg,omitempty"`  // set: complement
	// Alias is the semantic-action alias: part[alias] (C16).
	Alias string `json:"alias,omitempty"`
}

// egCmdText, when set, renders "cmd" parts (Sym = action id); C16 sets it while rendering.
var egCmdText func(id int) string

type egAlt struct {
	Parts []*egPart `json:"parts"`
	Node  string    `json:"node,omitempty"`
	Act   int       `json:"act,omitempty"` // C16: action id attached at the end of the alternative
}

type egNT struct {
	Name string   `json:"name"`
	Node string   `json:"node,omitempty"`
	Alts []*egAlt `json:"alts"`
}

type egInput struct {
	NT  int  `json:"nt"`
	Eoi bool `json:"eoi"`
}

type egSpec struct {
	T      int       `json:"t"` // terminals 1..T-1 are 'a'..; 0 = eoi
	NTs    []*egNT   `json:"nts"`
	Inputs []egInput `json:"inputs"`
}

func egTerm(t int) string { return "'" + string(rune('a'+t-1)) + "'" }

func (p *egPart) simple() bool { return p.K == "t" || p.K == "n" }

func (g *egSpec) renderPart(p *egPart) string {
	var s string
	switch p.K {
	case "t":
		s = egTerm(p.Sym)
	case "n":
		s = g.NTs[p.Sym].Name
	case "set":
		var ts []string
		for _, t := range p.Set {
			ts = append(ts, egTerm(t))
		}
		inner := strings.Join(ts, " | ")
		if p.Neg {
			// complement relative to all terminals except end-of-input
			inner = "~(" + inner + " | eoi)"
		}
		s = "set(" + inner + ")"
	case "la":
		var ps []string
		for _, x := range p.Set {
			if x < 0 {
				ps = append(ps, "!"+g.NTs[-1-x].Name)
			} else {
				ps = append(ps, g.NTs[x].Name)
			}
		}
		s = "(?= " + strings.Join(ps, " & ") + ")"
	case "mark":
		s = ".m" + fmt.Sprint(p.Sym)
		if p.Sym == 99 {
			s = ".recoveryScope" // the marker error recovery knows about (C19)
		}
	case "cmd":
		s = "{ _ = 0 }"
		if egCmdText != nil {
			s = egCmdText(p.Sym)
		}
	case "opt":
		a := p.Alts[0]
		if len(a.Parts) == 1 && a.Parts[0].simple() && a.Node == "" && a.Parts[0].Name == "" {
			s = g.renderPart(a.Parts[0]) + "?"
		} else if p.Alias != "" {
			// an alias on the parenthesised group (C16): the alias binds tighter than `?`
			return "(" + g.renderAlt(a) + ")[" + p.Alias + "]?"
		} else {
			s = "(" + g.renderAlt(a) + ")?"
		}
	case "grp":
		var alts []string
		for _, a := range p.Alts {
			alts = append(alts, g.renderAlt(a))
		}
		s = "(" + strings.Join(alts, " | ") + ")"
	case "list":
		a := p.Alts[0]
		q := "*"
		if p.Plus {
			q = "+"
		}
		sepText := egTerm(p.Sep)
		if p.Sep != 0 && p.Sep2 != 0 {
			sepText += " " + egTerm(p.Sep2)
		}
		switch {
		case p.Sep != 0 && a.Node != "":
			s = "((" + g.renderAlt(a) + ") separator " + sepText + ")" + q
		case p.Sep != 0:
			s = "(" + g.renderAlt(a) + " separator " + sepText + ")" + q
		case len(a.Parts) == 1 && a.Parts[0].simple() && a.Node == "" && a.Parts[0].Name == "":
			s = g.renderPart(a.Parts[0]) + q
		default:
			s = "(" + g.renderAlt(a) + ")" + q
		}
	}
	if p.Name != "" {
		s = p.Name + "=" + s
	}
	if p.Alias != "" {
		s += "[" + p.Alias + "]"
	}
	return s
}

func (g *egSpec) renderAlt(a *egAlt) string {
	var parts []string
	for _, p := range a.Parts {
		parts = append(parts, g.renderPart(p))
	}
	if len(parts) == 0 {
		parts = append(parts, "%empty")
	}
	if a.Node != "" {
		parts = append(parts, "-> "+a.Node)
	}
	return strings.Join(parts, " ")
}

// render produces the .tm text. altSuffix may add text (e.g. a semantic action) after an
// alternative of a nonterminal.
func (g *egSpec) render(name string, options map[string]string, space bool, parserPre string, altSuffix func(nt, alt int) string) string {
	var sb strings.Builder
	fmt.Fprintf(&sb, "language %s(go);\n\npackage = \"scratch/%s\"\n", name, name)
	keys := make([]string, 0, len(options))
	for k := range options {
		keys = append(keys, k)
	}
	sort.Strings(keys)
	for _, k := range keys {
		if strings.HasPrefix(k, "__") {
			continue // raw sections, see below
		}
		fmt.Fprintf(&sb, "%s = %s\n", k, options[k])
	}
	sb.WriteString("\n:: lexer\n\n")
	sb.WriteString(options["__lexer"])
	if space {
		sb.WriteString("space: /[ \\t\\n]+/ (space)\n")
	}
	for t := 1; t < g.T; t++ {
		// __termType / __termAction: raw type and lexer action of every terminal (C16)
		fmt.Fprintf(&sb, "%s%s: /%c/%s\n", egTerm(t), options["__termType"], 'a'+t-1, options["__termAction"])
	}
	sb.WriteString("\n:: parser\n\n" + parserPre + "%input ")
	for i, in := range g.Inputs {
		if i > 0 {
			sb.WriteString(", ")
		}
		sb.WriteString(g.NTs[in.NT].Name)
		if !in.Eoi {
			sb.WriteString(" no-eoi")
		}
	}
	sb.WriteString(";\n\n")
	for ni, nt := range g.NTs {
		ntType := options["__ntType"]
		if t, ok := options["__ntType:"+nt.Name]; ok {
			ntType = t // per-nonterminal override (C18, cc target)
		}
		sb.WriteString(nt.Name + ntType)
		if nt.Node != "" {
			sb.WriteString(" -> " + nt.Node)
		}
		sb.WriteString(":\n")
		for ai, a := range nt.Alts {
			if ai == 0 {
				sb.WriteString("    ")
			} else {
				sb.WriteString("  | ")
			}
			sb.WriteString(g.renderAlt(a))
			if altSuffix != nil {
				sb.WriteString(altSuffix(ni, ai))
			}
			sb.WriteString("\n")
		}
		sb.WriteString(";\n\n")
	}
	return sb.String()
}

// ---------- generation

type egGenOpts struct {
	MaxNT      int
	Terms      int // number of real terminals
	NodePct    int // probability of an annotation on alternatives
	Lists      bool
	MaxDepth   int
	NestedNode bool
}

type egGen struct {
	t      *rapid.T
	o      egGenOpts
	nNT    int
	nextID int
}

func (e *egGen) node(pct int) string {
	if rapid.IntRange(0, 99).Draw(e.t, "hasNode") < pct {
		e.nextID++
		// a small pool so that one node type is produced by several rules
		return fmt.Sprintf("N%d", rapid.IntRange(0, 5).Draw(e.t, "nodeName"))
	}
	return ""
}

func (e *egGen) term() int { return rapid.IntRange(1, e.o.Terms).Draw(e.t, "term") }

func (e *egGen) part(cur, depth int, first bool) *egPart {
	k := rapid.IntRange(0, 11).Draw(e.t, "partKind")
	if depth >= e.o.MaxDepth && k >= 6 {
		k = k % 6
	}
	switch {
	case k < 4:
		return &egPart{K: "t", Sym: e.term()}
	case k < 6:
		// reference a later nonterminal (no left recursion, finite derivations); sometimes self in
		// a non-leading position
		if cur+1 < e.nNT {
			return &egPart{K: "n", Sym: rapid.IntRange(cur+1, e.nNT-1).Draw(e.t, "ref")}
		}
		return &egPart{K: "t", Sym: e.term()}
	case k < 8:
		return &egPart{K: "opt", Alts: []*egAlt{e.alt(cur, depth+1, true, e.o.NestedNode)}}
	case k < 10:
		if e.o.NestedNode && rapid.IntRange(0, 3).Draw(e.t, "maybeEmptyNode") == 0 {
			// an annotated part that can be empty: (x? -> N) — reported at the following token
			inner := &egPart{K: "opt", Alts: []*egAlt{e.alt(cur, depth+1, true, false)}}
			return &egPart{K: "grp", Alts: []*egAlt{{Parts: []*egPart{inner}, Node: fmt.Sprintf("N%d", rapid.IntRange(0, 5).Draw(e.t, "emptyNodeName"))}}}
		}
		n := rapid.IntRange(2, 3).Draw(e.t, "nalts")
		p := &egPart{K: "grp"}
		for i := 0; i < n; i++ {
			p.Alts = append(p.Alts, e.alt(cur, depth+1, true, e.o.NestedNode))
		}
		return p
	default:
		if !e.o.Lists {
			return &egPart{K: "t", Sym: e.term()}
		}
		p := &egPart{K: "list", Plus: rapid.Bool().Draw(e.t, "plus")}
		p.Alts = []*egAlt{e.alt(cur, depth+1, true, e.o.NestedNode)}
		if rapid.IntRange(0, 2).Draw(e.t, "hasSep") == 0 {
			p.Sep = e.term()
		}
		return p
	}
}

// alt draws an alternative; guarded alternatives start with a terminal, which keeps most of the
// generated grammars LALR(1).
func (e *egGen) alt(cur, depth int, guarded, allowNode bool) *egAlt {
	a := &egAlt{}
	n := rapid.IntRange(0, 3).Draw(e.t, "nparts")
	if guarded {
		a.Parts = append(a.Parts, &egPart{K: "t", Sym: e.term()})
	}
	for i := 0; i < n; i++ {
		a.Parts = append(a.Parts, e.part(cur, depth, i == 0 && !guarded))
	}
	if allowNode {
		a.Node = e.node(e.o.NodePct)
	}
	return a
}

func genEG(t *rapid.T, o egGenOpts) egSpec {
	e := &egGen{t: t, o: o}
	e.nNT = rapid.IntRange(1, o.MaxNT).Draw(t, "nNT")
	g := egSpec{T: o.Terms + 1}
	for i := 0; i < e.nNT; i++ {
		nt := &egNT{Name: string(rune('A' + i))}
		if rapid.IntRange(0, 99).Draw(t, "ntNode") < o.NodePct {
			nt.Node = fmt.Sprintf("N%d", rapid.IntRange(0, 5).Draw(t, "ntNodeName"))
		}
		na := rapid.IntRange(1, 3).Draw(t, "nAlts")
		for j := 0; j < na; j++ {
			nt.Alts = append(nt.Alts, e.alt(i, 0, true, true))
		}
		// occasionally an empty alternative
		if i > 0 && rapid.IntRange(0, 5).Draw(t, "emptyAlt") == 0 {
			nt.Alts = append(nt.Alts, &egAlt{Node: e.node(o.NodePct / 2)})
		}
		g.NTs = append(g.NTs, nt)
	}
	g.Inputs = []egInput{{NT: 0, Eoi: true}}
	if e.nNT > 1 && rapid.IntRange(0, 3).Draw(t, "secondInput") == 0 {
		g.Inputs = append(g.Inputs, egInput{NT: rapid.IntRange(1, e.nNT-1).Draw(t, "inNT"), Eoi: true})
	}
	return g
}

// ---------- derivations

type dNode struct {
	alt  *egAlt
	nt   int // >= 0 for rule instances, -1 for nested alternatives and list elements
	kids []*dKid
	lo   int // token span [lo,hi)
	hi   int
}

type dKid struct {
	part  *egPart
	tok   int      // t: token index
	sub   *dNode   // n: rule instance; grp/opt: chosen nested alternative (nil: absent optional)
	elems []*dNode // list elements
	seps  []int    // list separator token indices
	lo    int
	hi    int
}

type deriver struct {
	g      *egSpec
	rnd    *lcg
	toks   []int
	budget int
	steps  int
}

func (d *deriver) alt(a *egAlt, nt int, depth int) *dNode {
	n := &dNode{alt: a, nt: nt, lo: len(d.toks)}
	for _, p := range a.Parts {
		k := &dKid{part: p, lo: len(d.toks)}
		d.steps++
		small := len(d.toks) >= d.budget || depth > 8 || d.steps > 400
		switch p.K {
		case "t":
			k.tok = len(d.toks)
			d.toks = append(d.toks, p.Sym)
		case "set":
			var cands []int
			for t := 1; t < d.g.T; t++ {
				in := false
				for _, x := range p.Set {
					if x == t {
						in = true
					}
				}
				if in != p.Neg {
					cands = append(cands, t)
				}
			}
			k.tok = len(d.toks)
			if len(cands) > 0 {
				d.toks = append(d.toks, cands[d.rnd.next(len(cands))])
			}
		case "n":
			nt2 := d.g.NTs[p.Sym]
			ai := d.rnd.next(len(nt2.Alts))
			if small {
				ai = shortestAlt(d.g, nt2)
			}
			k.sub = d.alt(nt2.Alts[ai], p.Sym, depth+1)
		case "opt":
			if !small && d.rnd.next(3) > 0 {
				k.sub = d.alt(p.Alts[0], -1, depth+1)
			}
		case "grp":
			ai := d.rnd.next(len(p.Alts))
			if small {
				ai = 0
				best := altMinLen(d.g, p.Alts[0], 0)
				for i, a := range p.Alts {
					if l := altMinLen(d.g, a, 0); l < best {
						best, ai = l, i
					}
				}
			}
			k.sub = d.alt(p.Alts[ai], -1, depth+1)
		case "list":
			cnt := d.rnd.next(4)
			if small {
				cnt = 0
			}
			if p.Plus && cnt == 0 {
				cnt = 1
			}
			for i := 0; i < cnt; i++ {
				if i > 0 && p.Sep != 0 {
					k.seps = append(k.seps, len(d.toks))
					d.toks = append(d.toks, p.Sep)
					if p.Sep2 != 0 {
						d.toks = append(d.toks, p.Sep2)
					}
				}
				k.elems = append(k.elems, d.alt(p.Alts[0], -1, depth+1))
			}
		}
		k.hi = len(d.toks)
		n.kids = append(n.kids, k)
	}
	n.hi = len(d.toks)
	return n
}

func altMinLen(g *egSpec, a *egAlt, depth int) int {
	if depth > 12 {
		return 1000
	}
	s := 0
	for _, p := range a.Parts {
		switch p.K {
		case "t", "set":
			s++
		case "n":
			best := 1000
			for _, x := range g.NTs[p.Sym].Alts {
				if l := altMinLen(g, x, depth+1); l < best {
					best = l
				}
			}
			s += best
		case "grp":
			best := 1000
			for _, x := range p.Alts {
				if l := altMinLen(g, x, depth+1); l < best {
					best = l
				}
			}
			s += best
		case "list":
			if p.Plus {
				s += altMinLen(g, p.Alts[0], depth+1)
			}
		}
	}
	return s
}

func shortestAlt(g *egSpec, nt *egNT) int {
	best, bi := 1<<30, 0
	for i, a := range nt.Alts {
		if l := altMinLen(g, a, 0); l < best {
			best, bi = l, i
		}
	}
	return bi
}

// derive produces a random sentence of input nonterminal nt with its derivation.
func (g *egSpec) derive(nt int, seed int, budget int) (*dNode, []int) {
	d := &deriver{g: g, rnd: &lcg{uint64(seed)*7919 + 13}, budget: budget}
	n := g.NTs[nt]
	root := d.alt(n.Alts[d.rnd.next(len(n.Alts))], nt, 0)
	return root, d.toks
}

// ---------- expected listener events

type egEvent struct {
	Type     string
	Lo, Hi   int // token span [Lo,Hi); Lo==Hi: empty, positioned at token Lo
}

// events computes the listener events in the order Textmapper's generated parser reports them:
// nested nonterminal instances and list elements report when they are reduced (left to right);
// annotations that are inlined into the enclosing rule are reported when that rule is reduced,
// left to right, inner first; the rule's own node comes last.
func (g *egSpec) events(n *dNode, out *[]egEvent) {
	g.childEvents(n, out)
	g.inlineArrows(n, out)
	node := n.alt.Node
	if node == "" && n.nt >= 0 {
		node = g.NTs[n.nt].Node
	}
	if node != "" {
		*out = append(*out, egEvent{node, n.lo, n.hi})
	}
}

func (g *egSpec) childEvents(n *dNode, out *[]egEvent) {
	for _, k := range n.kids {
		switch k.part.K {
		case "n":
			g.events(k.sub, out)
		case "opt", "grp":
			if k.sub != nil {
				g.childEvents(k.sub, out)
			}
		case "list":
			for _, e := range k.elems {
				// a list element is a rule of the list nonterminal
				g.childEvents(e, out)
				g.inlineArrows(e, out)
				if e.alt.Node != "" {
					*out = append(*out, egEvent{e.alt.Node, e.lo, e.hi})
				}
			}
		}
	}
}

func (g *egSpec) inlineArrows(n *dNode, out *[]egEvent) {
	for _, k := range n.kids {
		if (k.part.K == "opt" || k.part.K == "grp") && k.sub != nil {
			g.inlineArrows(k.sub, out)
			if k.sub.alt.Node != "" {
				*out = append(*out, egEvent{k.sub.alt.Node, k.sub.lo, k.sub.hi})
			}
		}
	}
}
