package props

import (
	"encoding/json"
	"fmt"
	"strings"
	"testing"

	"github.com/inspirer/textmapper/lex"
	"pgregory.net/rapid"

	"verif/harness/internal/ev"
	"verif/harness/internal/respec"
)

// C09 — lexer tables implement longest match with rule priority.
// Oracle: set-based matcher over the rule specs (internal/respec), per rule and start condition.

type c09Rule struct {
	RE     *respec.Node `json:"re"`
	Prec   int          `json:"prec"`
	Action int          `json:"action"`
	SCs    []int        `json:"scs"`
	Fold   bool         `json:"fold,omitempty"` // rule written with a (?i) prefix
}

type c09Case struct {
	Rules []c09Rule               `json:"rules"`
	Named map[string]*respec.Node `json:"named,omitempty"`
	Bytes bool                    `json:"bytes,omitempty"`
	NSC   int                     `json:"nsc"`
	Seed  int                     `json:"seed"`
	Extra []string                `json:"extra,omitempty"`
}

type mapResolver map[string]*lex.Pattern

func (m mapResolver) Resolve(name string) *lex.Pattern { return m[name] }

func c09GenRules(t *rapid.T, bytes bool, maxRules int, small bool) ([]c09Rule, map[string]*respec.Node, int) {
	o := reGenOpts{Bytes: bytes, Small: small, NoGroups: bytes}
	named := map[string]*respec.Node{}
	if rapid.IntRange(0, 2).Draw(t, "hasNamed") == 0 {
		nn := rapid.IntRange(1, 2).Draw(t, "nnamed")
		for i := 0; i < nn; i++ {
			name := fmt.Sprintf("n%d", i)
			named[name] = genRE(t, o, 1, true)
			o.Refs = append(o.Refs, name)
		}
	}
	nsc := rapid.IntRange(1, 3).Draw(t, "nsc")
	n := rapid.IntRange(1, maxRules).Draw(t, "nrules")
	var rules []c09Rule
	for i := 0; i < n; i++ {
		oo := o
		fold := !bytes && rapid.IntRange(0, 5).Draw(t, "rfold") == 0
		if fold {
			oo.FoldCtx = true
		}
		r := c09Rule{RE: genRE(t, oo, 0, true), Action: 2 + i, Fold: fold}
		if rapid.IntRange(0, 2).Draw(t, "hasPrec") == 0 {
			r.Prec = rapid.IntRange(-1, 2).Draw(t, "prec")
		}
		for sc := 0; sc < nsc; sc++ {
			if sc == 0 && rapid.IntRange(0, 3).Draw(t, "in0") > 0 || sc > 0 && rapid.Bool().Draw(t, "insc") {
				r.SCs = append(r.SCs, sc)
			}
		}
		if len(r.SCs) == 0 {
			r.SCs = []int{rapid.IntRange(0, nsc-1).Draw(t, "sc")}
		}
		// several rules may share an action (forces token indirection in generated lexers)
		if i > 0 && rapid.IntRange(0, 5).Draw(t, "shareAction") == 0 {
			r.Action = rules[rapid.IntRange(0, i-1).Draw(t, "shareWith")].Action
		}
		rules = append(rules, r)
	}
	return rules, named, nsc
}

func c09Gen(t *rapid.T) c09Case {
	bytes := rapid.IntRange(0, 3).Draw(t, "bytes") == 0
	rules, named, nsc := c09GenRules(t, bytes, 7, rapid.IntRange(0, 3).Draw(t, "small") > 0)
	return c09Case{Rules: rules, Named: named, Bytes: bytes, NSC: nsc, Seed: rapid.IntRange(0, 1<<30).Draw(t, "seed")}
}

func (c *c09Case) texts() []string {
	var ret []string
	for _, r := range c.Rules {
		s := respec.Render(r.RE)
		if r.Fold {
			s = "(?i)" + s
		}
		ret = append(ret, s)
	}
	return ret
}

func (c *c09Case) compile(allowBacktracking bool) (*lex.Tables, error) {
	opts := lex.CharsetOptions{ScanBytes: c.Bytes}
	res := mapResolver{}
	for name, n := range c.Named {
		text := respec.Render(n)
		re, err := lex.ParseRegexp(text, opts)
		if err != nil {
			return nil, fmt.Errorf("named %s /%s/: %w", name, text, err)
		}
		res[name] = &lex.Pattern{Name: name, RE: re, Text: text, Origin: srcNode(0)}
	}
	var rules []*lex.Rule
	for i, r := range c.Rules {
		text := c.texts()[i]
		re, err := lex.ParseRegexp(text, opts)
		if err != nil {
			return nil, fmt.Errorf("rule %d /%s/: %w", i, text, err)
		}
		rules = append(rules, &lex.Rule{
			Pattern:         &lex.Pattern{Name: fmt.Sprintf("r%d", i), RE: re, Text: text, Origin: srcNode(i)},
			Resolver:        res,
			StartConditions: r.SCs,
			Precedence:      r.Prec,
			Action:          r.Action,
			Origin:          srcNode(i),
		})
	}
	return lex.Compile(rules, c.Bytes, allowBacktracking)
}

func (c *c09Case) describe() string {
	var sb strings.Builder
	for name, n := range c.Named {
		fmt.Fprintf(&sb, "%s = /%s/; ", name, respec.Render(n))
	}
	for i, t := range c.texts() {
		fmt.Fprintf(&sb, "r%d<%v>: /%s/ prec=%d action=%d; ", i, c.Rules[i].SCs, t, c.Rules[i].Prec, c.Rules[i].Action)
	}
	fmt.Fprintf(&sb, "bytes=%v", c.Bytes)
	return sb.String()
}

// inputs derives input strings from the rules' own alphabets.
func (c *c09Case) inputs(n int) []string {
	al := map[rune]bool{}
	for _, r := range c.Rules {
		reAlphabetOf(r.RE, c.Named, al, 0)
	}
	var pool []string
	for _, x := range sortedRunes(al) {
		if s, ok := encodeSym(x, c.Bytes); ok {
			pool = append(pool, s)
		} else if c.Bytes && x > 0xff && x <= 0x10ffff {
			pool = append(pool, string(x))
		}
	}
	pool = append(pool, "a", "b", "A", "0", " ", "\n", "\xff", "\x80", "é", "\xc3")
	rnd := &lcg{uint64(c.Seed)}
	out := []string{"", "a", "ab", "\xff"}
	for i := 0; i < n; i++ {
		k := 1 + rnd.next(8)
		s := ""
		for j := 0; j < k; j++ {
			// favour the first few pool entries so that repeated symbols occur
			idx := rnd.next(len(pool))
			if rnd.next(3) == 0 {
				idx = rnd.next(min(3, len(pool)))
			}
			s += pool[idx]
		}
		if i%9 == 8 && len(s) > 1 {
			s = s[:1+rnd.next(len(s)-1)]
		}
		out = append(out, s)
	}
	return append(out, c.Extra...)
}

// c09Expect computes the reference scan result. ok=false: outside the domain (priority tie).
func c09Expect(c *c09Case, sc int, text string) (size, action int, fellBack, multi, ok bool) {
	var nodes []*respec.Node
	var envs []respec.Env
	best, bestPrec, bestAct, tie := 0, 0, 0, false
	matchedRules := 0
	for _, r := range c.Rules {
		active := false
		for _, s := range r.SCs {
			if s == sc {
				active = true
			}
		}
		if !active {
			continue
		}
		env := respec.Env{Bytes: c.Bytes, Fold: r.Fold, Refs: c.Named}
		nodes = append(nodes, r.RE)
		envs = append(envs, env)
		lens, _ := respec.MatchLens(r.RE, env, text)
		l := 0
		for _, x := range lens {
			if x > l {
				l = x
			}
		}
		if l == 0 {
			continue
		}
		matchedRules++
		switch {
		case l > best:
			best, bestPrec, bestAct, tie = l, r.Prec, r.Action, false
		case l == best && r.Prec > bestPrec:
			bestPrec, bestAct, tie = r.Prec, r.Action, false
		case l == best && r.Prec == bestPrec && r.Action != bestAct:
			tie = true
		}
	}
	viable := respec.ViablePrefix(nodes, envs, text, c.Bytes)
	if best > 0 {
		return best, bestAct, viable > best, matchedRules > 1, !tie
	}
	return viable, 0, false, false, true
}

func c09Check(c c09Case, r *ev.Recorder) *Failure {
	if len(c.Rules) == 0 || c.NSC < 1 || c.NSC > 4 {
		return nil
	}
	for _, rl := range c.Rules {
		if rl.RE == nil || rl.Action < 2 || len(rl.SCs) == 0 {
			return nil
		}
		for _, sc := range rl.SCs {
			if sc < 0 || sc >= c.NSC {
				return nil
			}
		}
		if reMinLen(rl.RE, c.Named, 0) == 0 {
			r.Excluded("rule-accepts-empty")
			return nil
		}
	}
	tbl, err := c.compile(true)
	if err != nil {
		if _, isParse := err.(lex.ParseError); isParse || strings.Contains(err.Error(), "broken regexp") {
			return failf("wellformed-rejected", "rule set does not parse: %v; %s", err, c.describe())
		}
		switch {
		case strings.Contains(err.Error(), "two rules are identical"):
			r.Excluded("compile-error:identical-rules")
		case strings.Contains(err.Error(), "accepts empty text"):
			r.Excluded("compile-error:accepts-empty-text")
		default:
			r.Excluded("compile-error:other")
		}
		return nil
	}
	if len(tbl.StateMap) < 1 {
		return nil
	}
	usedBacktrack, multi := false, false
	inputs := c.inputs(40)
	for sc := 0; sc < len(tbl.StateMap); sc++ {
		anyActive := false
		for _, rl := range c.Rules {
			for _, s := range rl.SCs {
				if s == sc {
					anyActive = true
				}
			}
		}
		if !anyActive {
			continue
		}
		for _, in := range inputs {
			wantSize, wantAct, fell, mu, ok := c09Expect(&c, sc, in)
			if !ok {
				r.Excluded("priority-tie-on-input")
				continue
			}
			size, act := tbl.Scan(sc, in)
			r.Eval(1)
			if size != wantSize || act != wantAct {
				return failf("scan-mismatch", "start condition %d, input %q: Tables.Scan returns (size=%d, action=%d), longest-match/priority semantics give (size=%d, action=%d) [action 0 = invalid token]; rules: %s", sc, in, size, act, wantSize, wantAct, c.describe())
			}
			if fell {
				usedBacktrack = true
			}
			if mu {
				multi = true
			}
		}
	}
	switch {
	case usedBacktrack && len(tbl.Backtrack) > 0:
		r.Class("fell-back-to-checkpoint")
	case multi:
		r.Class("several-rules-match-same-prefix")
	default:
		r.Class("plain")
	}
	if c.Bytes {
		r.Class("byte-mode")
	}
	if c.NSC > 1 {
		r.Class("several-start-conditions")
	}
	if usedBacktrack && len(tbl.Backtrack) > 0 || multi {
		js, _ := json.Marshal(c.Rules)
		r.Nontrivial(string(js) + fmt.Sprint(c.Bytes))
		if r.WantSample() {
			r.Sample(map[string]any{"rules": c.describe(), "dfa_states": len(tbl.Dfa) / tbl.NumSymbols, "checkpoints": len(tbl.Backtrack)})
		}
	}
	return nil
}

func TestC09(t *testing.T) {
	p := &prop[c09Case]{
		ID:   "C09",
		Rule: "rule sets of 1..7 rules (patterns from the regex generator: literals, classes, bounded/unbounded repetition, alternation, named patterns through a Resolver, (?i) rules; 75% over a 9-symbol alphabet so that rules collide), explicit priorities -1..2, 1..3 start conditions with per-rule membership, shared actions, rune and byte mode; compiled with lex.Compile(allowBacktracking=true); kept when it compiles. For every start condition, 44 inputs built from the rules' own alphabets (repeated symbols, truncations that split multi-byte runes, 0xff/0x80 bytes) are scanned with Tables.Scan and compared with a set-based matcher per rule: longest match, then highest priority, else the invalid-token length = longest viable prefix. Non-trivial: the scan fell back from a longer viable prefix to an accepted one with a checkpoint table present, or several rules matched the same input; distinct by rules JSON.",
		Assume: []string{"{eoi} patterns are not generated", "inputs on which two rules of equal priority and different actions match the same longest prefix are outside the domain (counted)"},
		Quick: 15000, Thorough: 600000,
		Gen:   c09Gen,
		Check: c09Check,
	}
	p.run(t)
}
