package props

import (
	"sort"

	"pgregory.net/rapid"

	"verif/harness/internal/respec"
)

// Generators for regular expression specs (shared by C09, C10, C11, C24).

type reGenOpts struct {
	Bytes    bool
	FoldCtx  bool // the context may be case-insensitive: avoid constructs whose folded meaning is ambiguous
	NoGroups bool // no (?i:) groups
	Refs     []string
	Small    bool // small ASCII alphabet only (C09/C24: reach deep DFA states)
}

var reAlphabetASCII = []rune{'a', 'b', 'c', 'A', 'B', 'k', 'K', 's', 'S', 'z', '0', '1', '9', '_', '+', '-', '.', ' ', '/', '*', '\\', ']', '[', '^', '\n', '\t', '{', '}', '(', ')', '|', '?', '"', '\''}
var reAlphabetUni = []rune{0xe9, 0xc9, 0xdf, 0x436, 0x416, 0x3b1, 0x3a3, 0x3c3, 0x3c2, 0x212a, 0x17f, 0x4e2d, 0x1f600, 0xfffd, 0x7f, 0x80, 0xff, 0x100, 0xb5, 0x345, 0x1c4, 0x1c5, 0x1c6, 0x10ffff, 0xd7ff, 0xe000, 0x2028,
	// boundaries of the generated lexers' rune maps (direct table below 2048, compressed map above)
	0x7fe, 0x7ff, 0x800, 0x801}
var reSmallAlphabet = []rune{'a', 'b', 'c', 'A', 'x', '0', '1', '-', ' '}

// reCapRune, when > 0, caps every generated rune (and keeps \p escapes out): the generated
// lexer's rune map then ends exactly at a chosen boundary. Set by a case generator for the
// duration of one draw.
var reCapRune rune

func genRune(t *rapid.T, o reGenOpts, inClass bool) rune {
	r := genRuneUncapped(t, o, inClass)
	if reCapRune > 0 && r > reCapRune {
		r = reCapRune - r%3
	}
	return r
}

func genRuneUncapped(t *rapid.T, o reGenOpts, inClass bool) rune {
	if o.Small {
		if o.Bytes && rapid.IntRange(0, 9).Draw(t, "hi") == 0 && inClass {
			return rune(rapid.IntRange(0x80, 0xff).Draw(t, "hibyte"))
		}
		return reSmallAlphabet[rapid.IntRange(0, len(reSmallAlphabet)-1).Draw(t, "sr")]
	}
	switch rapid.IntRange(0, 9).Draw(t, "rk") {
	case 0, 1, 2, 3, 4:
		return reAlphabetASCII[rapid.IntRange(0, len(reAlphabetASCII)-1).Draw(t, "ar")]
	case 5, 6, 7:
		r := reAlphabetUni[rapid.IntRange(0, len(reAlphabetUni)-1).Draw(t, "ur")]
		if o.Bytes && inClass && r > 0xff {
			return rune(rapid.IntRange(0x80, 0xff).Draw(t, "byter"))
		}
		return r
	default:
		if o.Bytes {
			return rune(rapid.IntRange(0, 0xff).Draw(t, "anybyte"))
		}
		r := rune(rapid.IntRange(0, 0x10ffff).Draw(t, "anyrune"))
		if r >= 0xd800 && r <= 0xdfff {
			r = 0xe000
		}
		return r
	}
}

func genEnc(t *rapid.T, r rune, o reGenOpts, inClass bool) string {
	// standalone \xHH with HH >= 0x80 in byte mode is not generated (its meaning, byte vs code
	// point, is not documented); inside classes it denotes the byte.
	encs := []string{"", "", "", "u", "U", "xb", "ub"}
	if r <= 0xff && (inClass || !o.Bytes || r < 0x80) {
		encs = append(encs, "x", "o")
	}
	switch r {
	case '\a', '\f', '\n', '\r', '\t', '\v':
		encs = append(encs, "c", "c")
	}
	e := encs[rapid.IntRange(0, len(encs)-1).Draw(t, "enc")]
	if e == "u" && r > 0xffff {
		e = "U"
	}
	return e
}

var reCategories = []string{"L", "Lu", "Ll", "Lt", "Lm", "Lo", "N", "Nd", "Nl", "P", "Pc", "Zs", "Sm", "Mn", "Cc", "Cf", "S"}
var reScripts = []string{"Greek", "Cyrillic", "Latin", "Han", "Hiragana", "Common", "Inherited", "Armenian"}
var reProps = []string{"White_Space", "Hex_Digit", "Other_ID_Start", "Pattern_Syntax", "ASCII_Hex_Digit", "Dash"}

func genEscName(t *rapid.T, o reGenOpts) string {
	// In case-insensitive contexts negated escapes (\D \S \W \P{..} \p{^..}) and \w are not
	// generated: whether negation applies before or after folding is not documented (and differs
	// between a standalone escape and the same escape inside brackets).
	simple := []string{"d", "s"}
	if !o.FoldCtx && reCapRune == 0 {
		simple = append(simple, "w", "W", "D", "S")
	}
	k := rapid.IntRange(0, 9).Draw(t, "esck")
	if k < 4 || o.Small || reCapRune > 0 {
		return simple[rapid.IntRange(0, len(simple)-1).Draw(t, "simple")]
	}
	var name string
	switch {
	case o.Bytes:
		name = []string{"Any", "Ascii"}[rapid.IntRange(0, 1).Draw(t, "bname")]
	case k < 7:
		name = reCategories[rapid.IntRange(0, len(reCategories)-1).Draw(t, "cat")]
	case k < 9:
		name = reScripts[rapid.IntRange(0, len(reScripts)-1).Draw(t, "script")]
	default:
		if o.FoldCtx {
			name = "Any" // (?i)\p{Ascii}: whether U+017F/U+212A belong is not documented
		} else {
			name = reProps[rapid.IntRange(0, len(reProps)-1).Draw(t, "prop")]
		}
	}
	pform := rapid.IntRange(0, 5).Draw(t, "pform")
	if o.FoldCtx && pform < 2 {
		pform = 5
	}
	switch pform {
	case 0:
		return "P{" + name + "}"
	case 1:
		return "p{^" + name + "}"
	case 2:
		if len(name) == 1 {
			return "p" + name
		}
	}
	return "p{" + name + "}"
}

func genClass(t *rapid.T, o reGenOpts, depth int) *respec.Class {
	c := &respec.Class{Neg: rapid.IntRange(0, 3).Draw(t, "neg") == 0}
	n := rapid.IntRange(1, 4).Draw(t, "nitems")
	for i := 0; i < n; i++ {
		switch rapid.IntRange(0, 9).Draw(t, "ik") {
		case 0, 1, 2, 3:
			r := genRune(t, o, true)
			c.Items = append(c.Items, respec.Item{K: "r", Lo: r, Enc: genEnc(t, r, o, true)})
		case 4, 5, 6:
			a, b := genRune(t, o, true), genRune(t, o, true)
			if rapid.IntRange(0, 2).Draw(t, "wellknown") == 0 {
				pairs := [][2]rune{{'a', 'z'}, {'A', 'Z'}, {'0', '9'}, {0, 0x7f}, {'a', 'f'}, {0x80, 0xff}, {0x370, 0x3ff}, {0, 0xffff}}
				if o.Bytes {
					pairs = pairs[:6]
				}
				p := pairs[rapid.IntRange(0, len(pairs)-1).Draw(t, "pair")]
				a, b = p[0], p[1]
			}
			if a > b {
				a, b = b, a
			}
			c.Items = append(c.Items, respec.Item{K: "rng", Lo: a, Hi: b, Enc: genEnc(t, b, o, true)})
		default:
			it := respec.Item{K: "esc", Esc: genEscName(t, o)}
			if i > 0 && rapid.IntRange(0, 3).Draw(t, "minusEsc") == 0 && len(it.Esc) > 1 {
				it.Minus = true // -\p{..}: subtraction (multi-rune escapes only)
			}
			c.Items = append(c.Items, it)
		}
	}
	// at least one positive item
	pos := false
	for _, it := range c.Items {
		if !it.Minus {
			pos = true
		}
	}
	if !pos {
		c.Items = append([]respec.Item{{K: "rng", Lo: 'a', Hi: 'z'}}, c.Items...)
	}
	if depth < 1 && rapid.IntRange(0, 3).Draw(t, "hasMinus") == 0 {
		c.Minus = append(c.Minus, genClass(t, o, depth+1))
	}
	return c
}

// genAtom draws a node that consumes exactly one symbol (or a fixed literal).
func genAtom(t *rapid.T, o reGenOpts) *respec.Node {
	switch rapid.IntRange(0, 9).Draw(t, "atom") {
	case 0, 1, 2, 3, 4:
		r := genRune(t, o, false)
		return &respec.Node{Op: "lit", R: r, Enc: genEnc(t, r, o, false)}
	case 5, 6, 7:
		return &respec.Node{Op: "class", Cls: genClass(t, o, 0)}
	case 8:
		return &respec.Node{Op: "esc", Name: genEscName(t, o)}
	default:
		return &respec.Node{Op: "dot"}
	}
}

// genRE draws a regular expression that cannot match the empty string when nonEmpty is set.
func genRE(t *rapid.T, o reGenOpts, depth int, nonEmpty bool) *respec.Node {
	if depth >= 3 {
		return genAtom(t, o)
	}
	k := rapid.IntRange(0, 11).Draw(t, "rek")
	switch {
	case k < 3:
		return genAtom(t, o)
	case k < 7: // concatenation
		n := rapid.IntRange(2, 4).Draw(t, "ncat")
		nd := &respec.Node{Op: "cat"}
		for i := 0; i < n; i++ {
			nd.Sub = append(nd.Sub, genRE(t, o, depth+1, nonEmpty && i == 0))
		}
		return nd
	case k < 9: // alternation (parenthesised by the renderer inside cat; top-level is fine)
		n := rapid.IntRange(2, 3).Draw(t, "nalt")
		nd := &respec.Node{Op: "alt"}
		for i := 0; i < n; i++ {
			nd.Sub = append(nd.Sub, genRE(t, o, depth+1, nonEmpty))
		}
		return &respec.Node{Op: "grp", Sub: []*respec.Node{nd}}
	case k < 11: // repetition
		sub := genRE(t, o, depth+1, true)
		if sub.Op == "rep" || sub.Op == "cat" || sub.Op == "alt" {
			sub = &respec.Node{Op: "grp", Sub: []*respec.Node{sub}}
		}
		nd := &respec.Node{Op: "rep", Sub: []*respec.Node{sub}}
		switch rapid.IntRange(0, 6).Draw(t, "repk") {
		case 0:
			nd.Min, nd.Max = 0, -1
		case 1:
			nd.Min, nd.Max = 1, -1
		case 2:
			nd.Min, nd.Max = 0, 1
		case 3:
			nd.Min = rapid.IntRange(0, 3).Draw(t, "n")
			nd.Max = nd.Min
		case 4:
			nd.Min = rapid.IntRange(0, 3).Draw(t, "n")
			nd.Max = -1
		default:
			nd.Min = rapid.IntRange(0, 2).Draw(t, "n")
			nd.Max = nd.Min + rapid.IntRange(0, 3).Draw(t, "m")
		}
		if nd.Min == 0 && nd.Max == 0 {
			nd.Max = 1
		}
		if nonEmpty && nd.Min == 0 {
			nd.Min = 1
			if nd.Max != -1 && nd.Max < 1 {
				nd.Max = 1
			}
		}
		return nd
	default:
		if len(o.Refs) > 0 && rapid.Bool().Draw(t, "useRef") {
			return &respec.Node{Op: "ref", Name: o.Refs[rapid.IntRange(0, len(o.Refs)-1).Draw(t, "ref")]}
		}
		if !o.NoGroups && !o.Bytes || !o.NoGroups && rapid.Bool().Draw(t, "bgrp") {
			oo := o
			fold := rapid.IntRange(1, 2).Draw(t, "gfold")
			if fold == 1 {
				oo.FoldCtx = true
			}
			return &respec.Node{Op: "grp", Fold: fold, Sub: []*respec.Node{genRE(t, oo, depth+1, nonEmpty)}}
		}
		return genAtom(t, o)
	}
}

// minLen computes the minimal number of symbols a node matches (refs resolved through refs).
func reMinLen(n *respec.Node, refs map[string]*respec.Node, depth int) int {
	if depth > 20 {
		return 0
	}
	switch n.Op {
	case "lit", "class", "dot", "esc":
		return 1
	case "cat":
		s := 0
		for _, x := range n.Sub {
			s += reMinLen(x, refs, depth+1)
		}
		return s
	case "alt":
		m := -1
		for _, x := range n.Sub {
			if v := reMinLen(x, refs, depth+1); m == -1 || v < m {
				m = v
			}
		}
		return m
	case "rep":
		return n.Min * reMinLen(n.Sub[0], refs, depth+1)
	case "grp":
		return reMinLen(n.Sub[0], refs, depth+1)
	case "ref":
		if r := refs[n.Name]; r != nil {
			return reMinLen(r, refs, depth+1)
		}
	}
	return 0
}

// reAlphabetOf collects the runes mentioned in a spec (for building inputs that reach deep states).
func reAlphabetOf(n *respec.Node, refs map[string]*respec.Node, out map[rune]bool, depth int) {
	if n == nil || depth > 20 {
		return
	}
	switch n.Op {
	case "lit":
		out[n.R] = true
	case "class":
		var cl func(c *respec.Class)
		cl = func(c *respec.Class) {
			for _, it := range c.Items {
				if it.K == "r" || it.K == "rng" {
					out[it.Lo] = true
					if it.K == "rng" {
						out[it.Hi] = true
						if it.Hi > it.Lo {
							out[it.Lo+1] = true
						}
					}
				}
			}
			for _, m := range c.Minus {
				cl(m)
			}
		}
		cl(n.Cls)
	case "ref":
		reAlphabetOf(refs[n.Name], refs, out, depth+1)
	}
	for _, s := range n.Sub {
		reAlphabetOf(s, refs, out, depth+1)
	}
}

func sortedRunes(m map[rune]bool) []rune {
	var r []rune
	for k := range m {
		r = append(r, k)
	}
	sort.Slice(r, func(i, j int) bool { return r[i] < r[j] })
	return r
}
