package props

import (
	"encoding/json"
	"fmt"
	"strings"
	"testing"

	"github.com/inspirer/textmapper/lalr"
	"pgregory.net/rapid"

	"verif/harness/internal/ev"
	"verif/harness/internal/tabint"
)

// C08 — runtime lookahead decisions pick the alternative whose predicates hold.
// Oracle: truth-table enumeration of all assignments to the predicates.

type c08Pred struct {
	In  int  `json:"in"`  // predicate input 0..M-1
	Neg bool `json:"neg"`
}

type c08Alt struct {
	Preds []c08Pred `json:"preds"`
	Term  int       `json:"term"` // 0: followed by 'a', 1: followed by 'b'
}

type c08Case struct {
	M    int      `json:"m"` // number of predicate inputs
	Alts []c08Alt `json:"alts"`
}

func c08Gen(t *rapid.T) c08Case {
	c := c08Case{M: rapid.IntRange(1, 4).Draw(t, "m")}
	n := rapid.IntRange(2, 5).Draw(t, "n")
	mode := rapid.IntRange(0, 2).Draw(t, "mode")
	// mode 0: random conjunctions; mode 1: decision-tree style (exclusive by construction);
	// mode 2: all alternatives use the predicates in one global order (consistent ordering)
	perm := rapid.Permutation([]int{0, 1, 2, 3}[:c.M]).Draw(t, "perm")
	for i := 0; i < n; i++ {
		var a c08Alt
		switch mode {
		case 1:
			// alt i: !p0 & !p1 & ... & p_i (last alternative: all negated), cut to M predicates
			for j := 0; j <= i && j < c.M; j++ {
				neg := j < i
				if i >= c.M && j == c.M-1 {
					neg = true
				}
				a.Preds = append(a.Preds, c08Pred{In: perm[j], Neg: neg})
			}
		default:
			k := rapid.IntRange(1, c.M).Draw(t, "k")
			var ins []int
			if mode == 2 {
				for _, p := range perm {
					if len(ins) < k && rapid.Bool().Draw(t, "use") {
						ins = append(ins, p)
					}
				}
				if len(ins) == 0 {
					ins = []int{perm[0]}
				}
			} else {
				ins = rapid.Permutation(perm).Draw(t, "order")[:k]
			}
			for _, in := range ins {
				a.Preds = append(a.Preds, c08Pred{In: in, Neg: rapid.Bool().Draw(t, "neg")})
			}
		}
		a.Term = 0
		if rapid.IntRange(0, 4).Draw(t, "otherTerm") == 0 {
			a.Term = 1
		}
		c.Alts = append(c.Alts, a)
	}
	return c
}

func (c *c08Case) String() string {
	var parts []string
	for i, a := range c.Alts {
		var ps []string
		for _, p := range a.Preds {
			s := fmt.Sprintf("P%d", p.In)
			if p.Neg {
				s = "!" + s
			}
			ps = append(ps, s)
		}
		parts = append(parts, fmt.Sprintf("L%d=(?= %s) '%c'", i, strings.Join(ps, " & "), 'a'+a.Term))
	}
	return strings.Join(parts, " | ")
}

// build creates: S: L0 t0 c0 | L1 t1 c1 | ... ; Li: (empty, lookahead) ; Pj: p (no-eoi inputs).
// Terminals: 0 eoi, 1 a, 2 b, 3 p, 4+i c_i. Nonterminals: S, L0.., P0..
func (c *c08Case) build() *lalr.Grammar {
	n := len(c.Alts)
	T := 4 + n
	g := &lalr.Grammar{Terminals: T, Origin: srcNode(0)}
	g.Symbols = []string{"eoi", "a", "b", "p"}
	for i := 0; i < n; i++ {
		g.Symbols = append(g.Symbols, fmt.Sprintf("c%d", i))
	}
	S := T
	g.Symbols = append(g.Symbols, "S")
	L := func(i int) int { return T + 1 + i }
	for i := 0; i < n; i++ {
		g.Symbols = append(g.Symbols, fmt.Sprintf("L%d", i))
	}
	P := func(j int) int { return T + 1 + n + j }
	for j := 0; j < c.M; j++ {
		g.Symbols = append(g.Symbols, fmt.Sprintf("P%d", j))
	}
	g.Inputs = append(g.Inputs, lalr.Input{Nonterminal: lalr.Sym(S), Eoi: true})
	for j := 0; j < c.M; j++ {
		g.Inputs = append(g.Inputs, lalr.Input{Nonterminal: lalr.Sym(P(j)), Eoi: false})
	}
	for i, a := range c.Alts {
		g.Rules = append(g.Rules, lalr.Rule{LHS: lalr.Sym(S), RHS: []lalr.Sym{lalr.Sym(L(i)), lalr.Sym(1 + a.Term), lalr.Sym(4 + i)}, Type: -1, Origin: srcNode(1 + i)})
	}
	for i, a := range c.Alts {
		g.Rules = append(g.Rules, lalr.Rule{LHS: lalr.Sym(L(i)), Type: -1, Origin: srcNode(100 + i)})
		la := lalr.Lookahead{Nonterminal: lalr.Sym(L(i)), Origin: srcNode(100 + i)}
		for _, p := range a.Preds {
			la.Predicates = append(la.Predicates, lalr.Predicate{Input: int32(1 + p.In), Negated: p.Neg})
		}
		g.Lookaheads = append(g.Lookaheads, la)
	}
	for j := 0; j < c.M; j++ {
		g.Rules = append(g.Rules, lalr.Rule{LHS: lalr.Sym(P(j)), RHS: []lalr.Sym{3}, Type: -1, Origin: srcNode(200 + j)})
	}
	return g
}

func c08Check(c c08Case, r *ev.Recorder) *Failure {
	n := len(c.Alts)
	if c.M < 1 || c.M > 4 || n < 2 || n > 6 {
		return nil
	}
	for _, a := range c.Alts {
		seen := map[int]bool{}
		if len(a.Preds) == 0 {
			return nil
		}
		for _, p := range a.Preds {
			if p.In < 0 || p.In >= c.M || seen[p.In] {
				return nil // an alternative mentioning one predicate twice is not generated
			}
			seen[p.In] = true
		}
	}
	g := c.build()
	t, err := lalr.Compile(g, lalr.Options{})
	r.Eval(1)
	T := g.Terminals
	sat := func(a c08Alt, asg int) bool {
		for _, p := range a.Preds {
			v := asg&(1<<uint(p.In)) != 0
			if v == p.Neg {
				return false
			}
		}
		return true
	}
	// groups by following terminal
	hasNeg := false
	for _, a := range c.Alts {
		for _, p := range a.Preds {
			if p.Neg {
				hasNeg = true
			}
		}
	}
	overlapping := false
	for term := 0; term < 2; term++ {
		var group []int
		for i, a := range c.Alts {
			if a.Term == term {
				group = append(group, i)
			}
		}
		if len(group) < 2 {
			continue
		}
		for asg := 0; asg < 1<<uint(c.M); asg++ {
			cnt := 0
			for _, i := range group {
				if sat(c.Alts[i], asg) {
					cnt++
				}
			}
			if cnt > 1 {
				overlapping = true
			}
		}
	}
	if overlapping {
		r.Class("not-mutually-exclusive")
		if err == nil {
			return failf("non-exclusive-accepted", "alternatives are not mutually exclusive but lalr.Compile reported no error: %s", c.String())
		}
		return nil
	}
	if err != nil {
		r.Class("exclusive-but-rejected(order)")
		return nil
	}
	r.Class("accepted")
	// Every assignment satisfying exactly one alternative of a group must select it.
	for term := 0; term < 2; term++ {
		var group []int
		for i, a := range c.Alts {
			if a.Term == term {
				group = append(group, i)
			}
		}
		if len(group) == 0 {
			continue
		}
		for asg := 0; asg < 1<<uint(c.M); asg++ {
			want := -1
			for _, i := range group {
				if sat(c.Alts[i], asg) {
					want = i
				}
			}
			if want == -1 {
				continue
			}
			pred := func(input int32, pos int) bool { return asg&(1<<uint(input-1)) != 0 }
			toks := []int{1 + term, 4 + want}
			res := tabint.Run(t, tabint.Opts{NumRules: len(g.Rules), Pred: pred, Trace: true}, 0, toks)
			r.Eval(1)
			if !res.Accept {
				// find what was selected
				sel := "?"
				for _, e := range res.Events {
					if e.Kind == 'r' && e.B > T && e.B <= T+n {
						sel = fmt.Sprintf("L%d", e.B-T-1)
					}
				}
				return failf("wrong-alternative", "predicate outcomes %0*b (bit j = P_j) satisfy only alternative L%d, but the decision procedure selected %s (Lookaheads=%+v); alternatives: %s", c.M, asg, want, sel, t.Lookaheads, c.String())
			}
			// also walk the decision list directly when the group needed one
			if len(group) >= 2 {
				for _, e := range res.Events {
					if e.Kind == 'r' && e.A >= len(g.Rules) {
						la := t.Lookaheads[e.A-len(g.Rules)]
						got := int(la.DefaultTarget)
						for _, cs := range la.Cases {
							if pred(cs.Input, 0) != cs.Negated {
								got = int(cs.Target)
								break
							}
						}
						if got != T+1+want {
							return failf("wrong-alternative-walk", "assignment %0*b: decision list yields symbol %d, want L%d; %s", c.M, asg, got, want, c.String())
						}
					}
				}
			}
		}
	}
	if len(t.Lookaheads) > 0 && (n >= 3 || hasNeg) {
		js, _ := json.Marshal(c)
		r.Nontrivial(string(js))
		if r.WantSample() {
			r.Sample(map[string]any{"alternatives": c.String(), "decision": fmt.Sprintf("%+v", t.Lookaheads)})
		}
	}
	return nil
}

func TestC08(t *testing.T) {
	p := &prop[c08Case]{
		ID:   "C08",
		Rule: "2..5 lookahead alternatives over 1..4 predicate inputs, each a conjunction of distinct, possibly negated predicates in some order (random conjunctions, decision-tree shaped exclusive sets, or one global predicate order), embedded as S: L_i t_i c_i with empty lookahead nonterminals L_i (Grammar.Lookaheads) where t_i in {a,b} decides which alternatives meet in one parser state; predicate inputs are no-eoi inputs. All 2^m truth assignments are enumerated per case: if two alternatives of one state can hold together an error must be reported; otherwise, when the compiler accepts, every assignment satisfying exactly one alternative must make the table interpreter (which evaluates Tables.Lookaheads Cases/DefaultTarget like applyRule does) parse t_i c_i of that alternative. Non-trivial: accepted set with a decision list and (>=3 alternatives or a negated predicate); distinct by case JSON.",
		Assume: []string{"over-rejection of mutually exclusive sets (ordering criterion) is not asserted", "an alternative mentioning the same predicate twice is not generated"},
		Quick: 8000, Thorough: 160000,
		Gen:   c08Gen,
		Check: c08Check,
	}
	p.run(t)
}
