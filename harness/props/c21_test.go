package props

import (
	"encoding/json"
	"fmt"
	"regexp"
	"strings"
	"testing"

	"pgregory.net/rapid"

	"github.com/inspirer/textmapper/grammar"
	"verif/harness/internal/batch"
	"verif/harness/internal/ev"
)

// C21 — typed AST accessors match the trees the parser builds. The adapter lives in the
// generated ast package and calls, by reflection, every accessor of the typed wrapper of every
// node of the tree built from a sentence. Oracle: the validity predicate of the statement
// (no panic, required => present, declared type, every annotated child reachable).

type c21Case struct {
	G          egSpec `json:"g"`
	Interfaces []int  `json:"interfaces,omitempty"` // nonterminals declared %interface
	Space      bool   `json:"space"`
	Comments   bool   `json:"comments"`
	FileNode   bool   `json:"filenode"`
	Opt        bool   `json:"optimize"`
	Seed       int    `json:"seed"`
}

func c21Gen(t *rapid.T) c21Case {
	switch rapid.IntRange(0, 5).Draw(t, "family") {
	case 0, 1, 2:
		return c21GenChains(t)
	case 3:
		return c21GenCycles(t)
	}
	c := c21Case{
		G:        genEG(t, egGenOpts{MaxNT: 5, Terms: 6, NodePct: 70, Lists: true, MaxDepth: 2, NestedNode: true}),
		Space:    rapid.Bool().Draw(t, "space"),
		FileNode: rapid.Bool().Draw(t, "filenode"),
		Opt:      rapid.Bool().Draw(t, "optimize"),
		Seed:     rapid.IntRange(0, 1<<30).Draw(t, "seed"),
	}
	if c.Space {
		c.Comments = rapid.Bool().Draw(t, "comments")
	}
	// aliases on some references and groups
	var walk func(a *egAlt)
	nAlias := 0
	walk = func(a *egAlt) {
		for _, p := range a.Parts {
			if (p.K == "n" || p.K == "grp" || p.K == "list" || p.K == "opt") && rapid.IntRange(0, 3).Draw(t, "alias") == 0 {
				p.Name = fmt.Sprintf("f%d", rapid.IntRange(0, 2).Draw(t, "aliasName"))
				nAlias++
			}
			for _, s := range p.Alts {
				walk(s)
			}
		}
	}
	for _, nt := range c.G.NTs {
		for _, a := range nt.Alts {
			walk(a)
		}
	}
	// interfaces: every alternative gets its own node so that it "produces exactly one node"
	for i, nt := range c.G.NTs {
		if i > 0 && rapid.IntRange(0, 2).Draw(t, "interface") == 0 {
			c.Interfaces = append(c.Interfaces, i)
			nt.Node = fmt.Sprintf("Cat%d", i)
			for _, a := range nt.Alts {
				if a.Node == "" {
					a.Node = fmt.Sprintf("N%d", rapid.IntRange(0, 5).Draw(t, "ifaceAltNode"))
				}
			}
		}
	}
	return c
}

func (c *c21Case) spec() *egSpec {
	g := c.G
	if c.FileNode {
		g.NTs = append(append([]*egNT(nil), g.NTs...), &egNT{Name: "Root", Node: "File", Alts: []*egAlt{{Parts: []*egPart{{K: "n", Sym: c.G.Inputs[0].NT}}}}})
		g.Inputs = []egInput{{NT: len(g.NTs) - 1, Eoi: true}}
	} else {
		g.Inputs = []egInput{{NT: c.G.Inputs[0].NT, Eoi: true}}
	}
	return &g
}

func (c *c21Case) render(name string) string {
	g := c.spec()
	opts := map[string]string{"eventBased": "true", "eventFields": "true", "eventAST": "true", "optimizeTables": fmt.Sprint(c.Opt)}
	if c.Space {
		opts["fixWhitespace"] = "true"
	}
	if c.FileNode {
		opts["fileNode"] = `"File"`
	}
	pre := ""
	if c.Comments {
		opts["__lexer"] = "comment: /#[^\\n]*/ (space)\n"
		pre += "%inject comment -> Comment;\n"
	}
	for _, i := range c.Interfaces {
		pre += fmt.Sprintf("%%interface Cat%d;\n", i)
	}
	return g.render(name, opts, c.Space, pre, nil)
}

var factoryRE = regexp.MustCompile(`func To(\w+)\(n \*Node\)`)

// typedAdapter adds ast/verif_export.go. VerifRun parses src with the generated ast.Parse and
// exercises every accessor; it returns
// "ok|nodes=N calls=N lists=N optPresent=N optAbsent=N ifaces=N depth=N|<problems separated by ;;>"
// or "noparse|<error>".
func typedAdapter(g *grammar.Grammar, files map[string]string) map[string]string {
	m := factoryRE.FindStringSubmatch(files["ast/factory.go"])
	if m == nil {
		return nil
	}
	base := m[1]
	var sb strings.Builder
	fmt.Fprintf(&sb, "package ast\n\nimport (\n\t\"fmt\"\n\t\"reflect\"\n\t\"strings\"\n\n\tvpp %q\n)\n\n", g.Options.Package)
	src := `var verifInjected = map[string]bool{"Comment": true, "InvalidToken": true}

type verifStats struct {
	nodes, calls, lists, optPresent, optAbsent, ifaces, depth int
	problems                                                  []string
}

func verifNodeOf(v reflect.Value) *Node {
	if v.Kind() == reflect.Interface {
		if v.IsNil() {
			return nil
		}
		return v.Interface().(BASE).BASE()
	}
	if v.Kind() == reflect.Ptr {
		v = v.Elem()
	}
	return v.Field(0).Interface().(*Node)
}

func (st *verifStats) problem(format string, args ...interface{}) {
	if len(st.problems) < 4 {
		st.problems = append(st.problems, fmt.Sprintf(format, args...))
	}
}

func (st *verifStats) checkValue(owner, method string, v reflect.Value, static reflect.Type, covered map[*Node]bool) {
	node := verifNodeOf(v)
	if !node.IsValid() {
		st.problem("required-absent: %s.%s() returns an absent node", owner, method)
		return
	}
	covered[node] = true
	dyn := reflect.TypeOf(ToBASE(node))
	switch static.Kind() {
	case reflect.Struct:
		if static.Name() != "Token" && dyn.Elem() != static {
			st.problem("wrong-type: %s.%s() is declared to return %s but returns a %v node", owner, method, static.Name(), node.Type())
		}
	case reflect.Interface:
		st.ifaces++
		if !dyn.Implements(static) {
			st.problem("wrong-type: %s.%s() is declared to return %s but returns a %v node", owner, method, static.Name(), node.Type())
		}
	}
}

func (st *verifStats) visit(n *Node, depth int) {
	st.nodes++
	if depth > st.depth {
		st.depth = depth
	}
	any := func(vpp.NodeType) bool { return true }
	w := ToBASE(n)
	rv := reflect.ValueOf(w)
	rt := rv.Type()
	owner := fmt.Sprint(n.Type())
	nodeType := reflect.TypeOf((*Node)(nil))
	covered := map[*Node]bool{}
	for i := 0; i < rt.NumMethod(); i++ {
		m := rt.Method(i)
		if _, own := nodeType.MethodByName(m.Name); own || m.Name == "BASE" || m.Type.NumIn() != 1 || m.Type.NumOut() == 0 {
			continue
		}
		var outs []reflect.Value
		var pan interface{}
		func() {
			defer func() { pan = recover() }()
			outs = rv.Method(i).Call(nil)
		}()
		st.calls++
		if pan != nil {
			st.problem("accessor-panics: %s.%s() panics: %v", owner, m.Name, pan)
			continue
		}
		out0 := m.Type.Out(0)
		switch {
		case out0.Kind() == reflect.Slice:
			st.lists++
			for j := 0; j < outs[0].Len(); j++ {
				st.checkValue(owner, m.Name, outs[0].Index(j), out0.Elem(), covered)
			}
		case len(outs) == 2:
			node := verifNodeOf(outs[0])
			if outs[1].Bool() != node.IsValid() {
				st.problem("optional-flag: %s.%s() returns ok=%v for a node with IsValid()=%v", owner, m.Name, outs[1].Bool(), node.IsValid())
			}
			if node.IsValid() {
				st.optPresent++
				st.checkValue(owner, m.Name, outs[0], out0, covered)
			} else {
				st.optAbsent++
			}
		default:
			st.checkValue(owner, m.Name, outs[0], out0, covered)
		}
	}
	for c := n.Child(any); c.IsValid(); c = c.Next(any) {
		if !verifInjected[fmt.Sprint(c.Type())] && !covered[c] {
			st.problem("child-not-covered: the %v child [%d,%d) of the %s node [%d,%d) is returned by none of its accessors", c.Type(), c.Offset(), c.Endoffset(), owner, n.Offset(), n.Endoffset())
		}
		st.visit(c, depth+1)
	}
}

func VerifRun(entry int, src string, arg string) string {
	tree, err := Parse("x", src)
	if err != nil {
		return "noparse|" + err.Error()
	}
	var st verifStats
	st.visit(tree.Root(), 0)
	return fmt.Sprintf("ok|nodes=%d calls=%d lists=%d optPresent=%d optAbsent=%d ifaces=%d depth=%d|%s", st.nodes, st.calls, st.lists, st.optPresent, st.optAbsent, st.ifaces, st.depth, strings.Join(st.problems, ";;"))
}
`
	sb.WriteString(strings.ReplaceAll(src, "BASE", base))
	return map[string]string{"ast/verif_export.go": sb.String()}
}

func c21Check(c c21Case, res *batch.Result, run runFunc, r *ev.Recorder) *Failure {
	g := c.spec()
	desc := func() string { return c.render("g") }
	total := map[string]int{}
	parsed := 0
	for s := 0; s < 40; s++ {
		dn, toks := g.derive(g.Inputs[0].NT, c.Seed+s*17, 3+s%9)
		if len(toks) > 60 {
			continue
		}
		// Known finding: a node reported for an empty range sits at the next token; when that is
		// the end of its parent's range the tree builder attaches it to an outer node, and when a
		// node reported later starts there the builder makes it a child of that node. Sentences
		// with an empty node on the boundary of another node are attributed to the finding (see
		// known_findings.txt).
		var evs []egEvent
		g.events(dn, &evs)
		emptyAtEnd := false
		for i, e := range evs {
			if e.Lo != e.Hi {
				continue
			}
			for j, o := range evs {
				if o.Lo < e.Lo && o.Hi == e.Lo || j > i && o.Lo == e.Lo && o.Hi > e.Lo {
					emptyAtEnd = true
				}
			}
		}
		rnd := &lcg{uint64(c.Seed + s)}
		cc := c20bCase{Space: c.Space, Comments: c.Comments}
		src := c20bSource(toks, &cc, rnd)
		out, pan, err := c19Run(run, 0, src, "")
		r.Eval(1)
		where := fmt.Sprintf("sentence %q; grammar:\n%s", src, desc())
		if err != nil {
			return failf("driver-hangs-or-dies", "%v on %s", err, where)
		}
		if pan != "" {
			return failf("panic-outside-accessors", "%s on %s", oneLine(pan, 400), where)
		}
		f := strings.SplitN(out, "|", 3)
		if f[0] == "noparse" {
			if strings.Contains(out, "exactly one root") {
				r.Class("no-single-root")
				continue
			}
			return failf("sentence-rejected", "ast.Parse fails with %q on a %s", out, where)
		}
		if len(f) != 3 {
			return failf("adapter-output", "bad adapter output %q", out)
		}
		parsed++
		if emptyAtEnd {
			r.Class("sentence-with-empty-node-on-a-boundary")
		}
		var nodes, calls, lists, optP, optA, ifaces, depth int
		fmt.Sscanf(f[1], "nodes=%d calls=%d lists=%d optPresent=%d optAbsent=%d ifaces=%d depth=%d", &nodes, &calls, &lists, &optP, &optA, &ifaces, &depth)
		total["calls"] += calls
		total["lists"] += lists
		total["optPresent"] += optP
		total["optAbsent"] += optA
		total["ifaces"] += ifaces
		if depth > total["depth"] {
			total["depth"] = depth
		}
		if f[2] != "" {
			first := strings.SplitN(f[2], ";;", 2)[0]
			key := strings.SplitN(first, ":", 2)[0]
			if emptyAtEnd {
				key = "empty-node-on-boundary"
			}
			return failf(key, "%s; %s", strings.ReplaceAll(f[2], ";;", " | "), where)
		}
	}
	if parsed > 0 && total["calls"] >= 3 && (total["lists"] > 0 || total["optPresent"] > 0 || total["ifaces"] > 0) {
		js, _ := json.Marshal(c)
		r.Nontrivial(string(js))
		for _, k := range []string{"lists", "optPresent", "optAbsent", "ifaces"} {
			if total[k] > 0 {
				r.Class("seen:" + k)
			}
		}
		if r.WantSample() {
			r.Sample(map[string]any{"grammar": desc(), "accessor_calls": total["calls"], "max_depth": total["depth"]})
		}
	}
	return nil
}

func TestC21(t *testing.T) {
	p := &batchProp[c21Case]{
		ID:        "C21",
		Rule:      "C02 grammars (annotations at nonterminal, alternative, nested-choice, optional and list-element level) with eventFields+eventAST, random `name=` aliases on references/groups/lists/optionals, nonterminals turned into %interface categories (every alternative annotated), optional fileNode wrapper, optional skipped space with fixWhitespace and an injected comment token; grammars the compiler rejects (conflicts, 'must produce exactly one node', overlapping fields, ...) are outside the domain and counted. 40 derived sentences per grammar are parsed with the generated ast.Parse; for every node of the tree every accessor of its typed wrapper is called by reflection. Checked: no panic; a single-value (required) accessor returns a valid node; the ok flag of optional accessors equals IsValid(); every returned node has the declared struct type or implements the declared category; every child whose type is not an injected token is returned by at least one accessor of its parent. Non-trivial: a grammar with >= 3 accessor calls including a list, a present optional or a category accessor.",
		Assume:    []string{"without fileNode a sentence whose events do not form a single root is rejected by the builder ('exactly one root node is expected'); counted, not reported"},
		Quick:     128, Thorough: 1920, BatchSize: 64,
		Gen:       c21Gen,
		Unit: func(c c21Case, name string) (batch.Unit, bool) {
			return batch.Unit{Name: name, TM: c.render(name), Adapter: typedAdapter, RunPkg: "ast"}, true
		},
		Check: c21Check,
	}
	p.run(t)
}
