package props

import (
	"bufio"
	"context"
	"encoding/json"
	"fmt"
	"io"
	"os"
	"os/exec"
	"path/filepath"
	"strconv"
	"strings"
	"sync"
	"testing"
	"time"
	"unicode/utf8"

	"github.com/inspirer/textmapper/compiler"
	"github.com/inspirer/textmapper/parsers/tm"
	"github.com/inspirer/textmapper/parsers/tm/token"
	"github.com/inspirer/textmapper/status"
	"pgregory.net/rapid"

	"verif/harness/internal/ev"
)

// C23 — the language server stays consistent under any message history. The real binary
// (`textmapper ls`, rebuilt from /repo, with the race detector in the thorough tier) is driven
// over stdin/stdout with generated histories sent as one burst; the oracle is a model of the
// open documents plus an independent computation of the expected diagnostics and of the
// UTF-16 positions.

type c23Op struct {
	Kind string `json:"kind"` // open | change | close | def
	Doc  int    `json:"doc"`
	Text string `json:"text,omitempty"`
	// def: the cursor is put on the K-th identifier token of the document (modulo their number),
	// Delta bytes into it; when the document has no identifier, at byte offset K modulo len+1.
	K     int `json:"k,omitempty"`
	Delta int `json:"delta,omitempty"`
}

type c23Case struct {
	Ops []c23Op `json:"ops"`
}

var c23Unicode = []string{"# комментарий\n", "/* 😀 */ ", "'→': /→/\n", "# 𝒳𝒴\n", "/* é */", "\"ü\" ", "привет ", "😀", "/*€*/", "'中': /中/\n", "\"€\" "}

func c23GenText(t *rapid.T) string {
	sp := shippedByName("tm")
	src, _ := spGenSrc(t, sp)
	s := string(src)
	if len(s) > 1500 {
		// large grammars (windows of js.tm) make every compile take seconds; a short prefix keeps
		// the declarations and turns the rest into a syntax error
		s = s[:1500]
	}
	for n := rapid.IntRange(0, 3).Draw(t, "unicode"); n > 0; n-- {
		pos := rapid.IntRange(0, len(s)).Draw(t, "upos")
		for pos > 0 && pos < len(s) && !utf8.RuneStart(s[pos]) {
			pos--
		}
		s = s[:pos] + c23Unicode[rapid.IntRange(0, len(c23Unicode)-1).Draw(t, "upiece")] + s[pos:]
	}
	// a comment with non-BMP / non-ASCII characters at the beginning of some lines: everything
	// behind it on that line has different byte, rune and UTF-16 columns
	for n := rapid.IntRange(0, 2).Draw(t, "lineComments"); n > 0; n-- {
		lines := strings.SplitAfter(s, "\n")
		k := rapid.IntRange(0, len(lines)-1).Draw(t, "commentLine")
		// (one, two, three and four byte sequences, and the boundaries between them)
		kinds := []string{"/*😀*/", "/* é𝒳 */ ", "/*😀😀*/ ", "/*€€*/ ", "/*中文*/", "/*\u007f\u0080߿ࠀ*/ ", "/*￮￿\U00010000*/ ", "/*࿿က*/"}
		lines[k] = kinds[rapid.IntRange(0, len(kinds)-1).Draw(t, "commentKind")] + lines[k]
		s = strings.Join(lines, "")
	}
	if !utf8.ValidString(s) {
		s = strings.ToValidUTF8(s, "?") // JSON transport cannot carry invalid UTF-8
	}
	return s
}

func c23Gen(t *rapid.T) c23Case {
	var c c23Case
	n := rapid.IntRange(1, 10).Draw(t, "ops")
	open := map[int]bool{}
	texts := map[int]string{}
	for i := 0; i < n; i++ {
		doc := rapid.IntRange(0, 2).Draw(t, "doc")
		k := rapid.IntRange(0, 9).Draw(t, "kind")
		switch {
		case !open[doc] && k < 8:
			texts[doc] = c23GenText(t)
			c.Ops = append(c.Ops, c23Op{Kind: "open", Doc: doc, Text: texts[doc]})
			open[doc] = true
		case k < 4:
			// one change in four re-sends the current text under a new version (undo/redo, a
			// repeated full sync): it still needs its own diagnostics
			if cur, ok := texts[doc]; !ok || rapid.IntRange(0, 3).Draw(t, "sameText") > 0 {
				texts[doc] = c23GenText(t)
			} else {
				texts[doc] = cur
			}
			c.Ops = append(c.Ops, c23Op{Kind: "change", Doc: doc, Text: texts[doc]})
			open[doc] = true // the server stores changed documents
		case k < 8:
			c.Ops = append(c.Ops, c23Op{Kind: "def", Doc: doc, K: rapid.IntRange(0, 200).Draw(t, "k"), Delta: rapid.IntRange(0, 3).Draw(t, "delta")})
		case k < 9:
			c.Ops = append(c.Ops, c23Op{Kind: "close", Doc: doc})
			open[doc] = false
		default:
			c.Ops = append(c.Ops, c23Op{Kind: "def", Doc: doc, K: rapid.IntRange(0, 200).Draw(t, "k")})
		}
	}
	return c
}

// ---------- UTF-16 helpers

func utf16Len(s string) int {
	n := 0
	for _, r := range s {
		n++
		if r > 0xffff {
			n++
		}
	}
	return n
}

// lspPos converts a byte offset into a (line, UTF-16 column) position.
func lspPos(content string, off int) (int, int) {
	line := strings.Count(content[:off], "\n")
	start := strings.LastIndexByte(content[:off], '\n') + 1
	return line, utf16Len(content[start:off])
}

// lspOffset converts a position back; ok=false when it does not denote a rune boundary inside
// the document.
func lspOffset(content string, line, char int) (int, bool) {
	off := 0
	for l := 0; l < line; l++ {
		nl := strings.IndexByte(content[off:], '\n')
		if nl < 0 {
			return 0, false
		}
		off += nl + 1
	}
	for char > 0 {
		r, w := utf8.DecodeRuneInString(content[off:])
		if w == 0 || r == '\n' {
			return 0, false
		}
		off += w
		char--
		if r > 0xffff {
			if char == 0 {
				return 0, false
			}
			char--
		}
	}
	return off, true
}

// ---------- the LSP client

var (
	c23BuildOnce sync.Once
	c23Binary    string
	c23BuildErr  error
)

func c23Build() (string, error) {
	c23BuildOnce.Do(func() {
		dir := scratchDir()
		os.MkdirAll(dir, 0o755)
		c23Binary = filepath.Join(dir, "tmls")
		args := []string{"build", "-o", c23Binary}
		if tier() == "thorough" || os.Getenv("VERIF_C23_RACE") != "" {
			args = append(args, "-race")
		}
		args = append(args, "./cmd/textmapper")
		cmd := exec.Command(goBin(), args...)
		cmd.Dir = "/repo"
		cmd.Env = append(os.Environ(), "GOFLAGS=-mod=mod", "GOPROXY=off", "GOSUMDB=off", "GOTOOLCHAIN=local")
		// the default build cache (the one the harness itself was built with) already holds the
		// standard library and the repository's packages
		if out, err := cmd.CombinedOutput(); err != nil {
			c23BuildErr = fmt.Errorf("go build ./cmd/textmapper: %v\n%s", err, out)
		}
	})
	return c23Binary, c23BuildErr
}

type lspMsg struct {
	ID     *json.RawMessage `json:"id,omitempty"`
	Method string           `json:"method,omitempty"`
	Params json.RawMessage  `json:"params,omitempty"`
	Result json.RawMessage  `json:"result,omitempty"`
	Error  *struct {
		Code    int    `json:"code"`
		Message string `json:"message"`
	} `json:"error,omitempty"`
}

type lspClient struct {
	cmd    *exec.Cmd
	stdin  io.WriteCloser
	msgs   chan lspMsg
	stderr *strings.Builder
	mu     sync.Mutex
	exited chan struct{}
}

func startLSP(bin string) (*lspClient, error) {
	cmd := exec.Command(bin, "ls")
	cmd.Env = append(os.Environ(), "GORACE=halt_on_error=1 exitcode=66")
	stdin, _ := cmd.StdinPipe()
	stdout, _ := cmd.StdoutPipe()
	errPipe, _ := cmd.StderrPipe()
	if err := cmd.Start(); err != nil {
		return nil, err
	}
	c := &lspClient{cmd: cmd, stdin: stdin, msgs: make(chan lspMsg, 256), stderr: &strings.Builder{}, exited: make(chan struct{})}
	go func() {
		buf := make([]byte, 4096)
		for {
			n, err := errPipe.Read(buf)
			c.mu.Lock()
			if c.stderr.Len() < 1<<20 {
				c.stderr.Write(buf[:n])
			}
			c.mu.Unlock()
			if err != nil {
				return
			}
		}
	}()
	go func() {
		defer close(c.msgs)
		rd := bufio.NewReader(stdout)
		for {
			length := -1
			for {
				line, err := rd.ReadString('\n')
				if err != nil {
					return
				}
				line = strings.TrimSpace(line)
				if line == "" {
					break
				}
				if v, ok := strings.CutPrefix(strings.ToLower(line), "content-length:"); ok {
					length, _ = strconv.Atoi(strings.TrimSpace(v))
				}
			}
			if length < 0 {
				return
			}
			body := make([]byte, length)
			if _, err := io.ReadFull(rd, body); err != nil {
				return
			}
			var m lspMsg
			if json.Unmarshal(body, &m) == nil {
				c.msgs <- m
			}
		}
	}()
	go func() { cmd.Wait(); close(c.exited) }()
	return c, nil
}

func (c *lspClient) send(v any) {
	body, _ := json.Marshal(v)
	fmt.Fprintf(c.stdin, "Content-Length: %d\r\n\r\n%s", len(body), body)
}

func (c *lspClient) stop() {
	c.stdin.Close()
	select {
	case <-c.exited:
	case <-time.After(30 * time.Millisecond):
		c.cmd.Process.Kill()
		<-c.exited
	}
}

func (c *lspClient) stderrTail() string {
	c.mu.Lock()
	defer c.mu.Unlock()
	s := c.stderr.String()
	// the interesting part of a crash is the panic / race report, not the zap log lines
	for _, marker := range []string{"panic:", "fatal error:", "WARNING: DATA RACE"} {
		if i := strings.Index(s, marker); i >= 0 {
			return oneLine(s[i:], 700)
		}
	}
	if len(s) > 400 {
		s = s[len(s)-400:]
	}
	return oneLine(s, 400)
}

// ---------- expected diagnostics

type c23Diag struct {
	Line, Start, End int
	Msg              string
}

func c23Expected(filename, content string) []c23Diag {
	_, err := compiler.Compile(context.Background(), filename, content, compiler.Params{CheckOnly: true, Verbose: true})
	var out []c23Diag
	if se, ok := err.(tm.SyntaxError); ok {
		// a syntax error carries offsets only
		err = &status.Error{Origin: status.SourceRange{Offset: se.Offset, EndOffset: se.Endoffset}, Msg: se.Error()}
	}
	for _, p := range status.FromError(err) {
		o, e := p.Origin.Offset, p.Origin.EndOffset
		if o < 0 || e < o || e > len(content) {
			continue // C22's business
		}
		if nl := strings.IndexByte(content[o:e], '\n'); nl >= 0 {
			e = o + nl
		}
		line, start := lspPos(content, o)
		_, end := lspPos(content, e)
		out = append(out, c23Diag{line, start, end, p.Msg})
	}
	return out
}

func c23Check(c c23Case, r *ev.Recorder) *Failure {
	bin, err := c23Build()
	if err != nil {
		r.Excluded("infra:server-build-failed")
		return nil
	}
	cl, err := startLSP(bin)
	if err != nil {
		r.Excluded("infra:cannot-start-server")
		return nil
	}
	defer cl.stop()
	r.Eval(1)
	uri := func(d int) string { return fmt.Sprintf("file:///w/doc%d.tm", d) }
	cl.send(map[string]any{"jsonrpc": "2.0", "id": 1, "method": "initialize", "params": map[string]any{
		"processId": nil, "rootUri": "file:///w", "capabilities": map[string]any{},
		"workspaceFolders": []any{map[string]any{"uri": "file:///w", "name": "w"}}}})
	cl.send(map[string]any{"jsonrpc": "2.0", "method": "initialized", "params": map[string]any{}})

	// the model and the burst
	type pending struct {
		op      c23Op
		content string // document content the request refers to
		open    bool
		version int
		cursor  int
		ident   string // text of the identifier token under the cursor ("" if none)
		line    int
		char    int
	}
	docs := map[int]string{}
	isOpen := map[int]bool{}
	version := map[int]int{}
	var wantDiags []pending
	defs := map[int]*pending{}
	nextID := 100
	history := func() string {
		var sb strings.Builder
		for i, op := range c.Ops {
			fmt.Fprintf(&sb, "%d:%s(doc%d", i, op.Kind, op.Doc)
			if op.Kind == "open" || op.Kind == "change" {
				fmt.Fprintf(&sb, ", %d bytes", len(op.Text))
			}
			sb.WriteString(") ")
		}
		return sb.String()
	}
	for _, op := range c.Ops {
		switch op.Kind {
		case "open", "change":
			version[op.Doc]++
			docs[op.Doc] = op.Text
			isOpen[op.Doc] = true
			p := pending{op: op, content: op.Text, version: version[op.Doc]}
			wantDiags = append(wantDiags, p)
			if op.Kind == "open" {
				cl.send(map[string]any{"jsonrpc": "2.0", "method": "textDocument/didOpen", "params": map[string]any{
					"textDocument": map[string]any{"uri": uri(op.Doc), "languageId": "tm", "version": p.version, "text": op.Text}}})
			} else {
				cl.send(map[string]any{"jsonrpc": "2.0", "method": "textDocument/didChange", "params": map[string]any{
					"textDocument":   map[string]any{"uri": uri(op.Doc), "version": p.version},
					"contentChanges": []any{map[string]any{"text": op.Text}}}})
			}
		case "close":
			delete(docs, op.Doc)
			isOpen[op.Doc] = false
			cl.send(map[string]any{"jsonrpc": "2.0", "method": "textDocument/didClose", "params": map[string]any{
				"textDocument": map[string]any{"uri": uri(op.Doc)}}})
		case "def":
			content := docs[op.Doc]
			p := &pending{op: op, content: content, open: isOpen[op.Doc]}
			// identifier tokens of the document
			type span struct{ s, e int }
			var ids []span
			if p.open {
				var l tm.Lexer
				l.Init(content)
				for n := 0; n < len(content)+2; n++ {
					tok := l.Next()
					if tok == token.EOI {
						break
					}
					if tok == token.ID {
						s, e := l.Pos()
						ids = append(ids, span{s, e})
					}
				}
			}
			if len(ids) > 0 {
				id := ids[op.K%len(ids)]
				p.cursor = id.s + op.Delta%(id.e-id.s+1)
				for p.cursor > id.s && p.cursor < len(content) && !utf8.RuneStart(content[p.cursor]) {
					p.cursor--
				}
				p.ident = content[id.s:id.e]
			} else {
				p.cursor = op.K % (len(content) + 1)
				for p.cursor > 0 && p.cursor < len(content) && !utf8.RuneStart(content[p.cursor]) {
					p.cursor--
				}
			}
			p.line, p.char = lspPos(content, p.cursor)
			nextID++
			defs[nextID] = p
			cl.send(map[string]any{"jsonrpc": "2.0", "id": nextID, "method": "textDocument/definition", "params": map[string]any{
				"textDocument": map[string]any{"uri": uri(op.Doc)}, "position": map[string]any{"line": p.line, "character": p.char}}})
		}
	}

	// A last request marks the end of the burst: requests are handled one after the other, so
	// when its answer arrives every earlier message has been processed.
	const sentinel = 99999
	cl.send(map[string]any{"jsonrpc": "2.0", "id": sentinel, "method": "textDocument/definition", "params": map[string]any{
		"textDocument": map[string]any{"uri": "file:///w/none.tm"}, "position": map[string]any{"line": 0, "character": 0}}})

	// collect
	gotDiags := 0
	gotDefs := 0
	initialized := false
	sentinelSeen := false
	timeout := time.After(60 * time.Second)
	sawUnicodeDiag, sawDefResult := false, false
	for gotDiags < len(wantDiags) || gotDefs < len(defs) || !initialized {
		if sentinelSeen && gotDiags < len(wantDiags) {
			// Diagnostics are written by a handler before the next handler may start, so all of them
			// precede the answer to the last request. (Answers to requests are written after the
			// next handler is released and may arrive later; they are simply waited for.)
			return failf("diagnostics-missing", "the server has answered the last request of the burst but only %d of %d diagnostics publications arrived before it; history %s", gotDiags, len(wantDiags), history())
		}
		var m lspMsg
		var ok bool
		select {
		case m, ok = <-cl.msgs:
			if !ok {
				<-cl.exited
				return failf("server-crashed", "the server exited (%v) during the history %s; stderr: %s", cl.cmd.ProcessState, history(), cl.stderrTail())
			}
		case <-timeout:
			return failf("server-hangs", "after 60 s %d of %d diagnostics and %d of %d definition answers have arrived; history %s", gotDiags, len(wantDiags), gotDefs, len(defs), history())
		}
		switch {
		case m.Method == "textDocument/publishDiagnostics":
			var p struct {
				URI         string `json:"uri"`
				Version     int    `json:"version"`
				Diagnostics []struct {
					Range struct {
						Start struct{ Line, Character int }
						End   struct{ Line, Character int }
					}
					Message string
				}
			}
			if err := json.Unmarshal(m.Params, &p); err != nil {
				return failf("bad-notification", "cannot decode publishDiagnostics: %v", err)
			}
			if gotDiags >= len(wantDiags) {
				return failf("extra-diagnostics", "unexpected publishDiagnostics for %s version %d; history %s", p.URI, p.Version, history())
			}
			w := wantDiags[gotDiags]
			gotDiags++
			if p.URI != uri(w.op.Doc) || p.Version != w.version {
				return failf("diagnostics-out-of-order", "publishDiagnostics #%d is for %s version %d, expected %s version %d (request order); history %s", gotDiags, p.URI, p.Version, uri(w.op.Doc), w.version, history())
			}
			want := c23Expected(fmt.Sprintf("/w/doc%d.tm", w.op.Doc), w.content)
			for i, d := range p.Diagnostics {
				s, sok := lspOffset(w.content, d.Range.Start.Line, d.Range.Start.Character)
				e, eok := lspOffset(w.content, d.Range.End.Line, d.Range.End.Character)
				if !sok || !eok || e < s {
					return failf("diagnostic-range-outside-document", "diagnostic %q has range %d:%d-%d:%d which is not a UTF-16 position range inside the document (version %d of doc%d):\n%s", d.Message, d.Range.Start.Line, d.Range.Start.Character, d.Range.End.Line, d.Range.End.Character, w.version, w.op.Doc, trimText(w.content))
				}
				if i < len(want) && len(want) == len(p.Diagnostics) {
					x := want[i]
					if d.Message == x.Msg && (d.Range.Start.Line != x.Line || d.Range.Start.Character != x.Start || d.Range.End.Character != x.End) {
						return failf("diagnostic-position-not-utf16", "diagnostic %q is published at %d:%d-%d, its source range is %d:%d-%d in UTF-16 code units (version %d of doc%d):\n%s", d.Message, d.Range.Start.Line, d.Range.Start.Character, d.Range.End.Character, x.Line, x.Start, x.End, w.version, w.op.Doc, trimText(w.content))
					}
					lineStart := s - len(w.content[:s]) + strings.LastIndexByte(w.content[:s], '\n') + 1
					if !isASCII(w.content[lineStart:e]) {
						sawUnicodeDiag = true
					}
				}
			}
			if len(want) != len(p.Diagnostics) {
				return failf("diagnostics-differ-from-compile", "%d diagnostics published, compiler.Compile reports %d problems (version %d of doc%d):\n%s", len(p.Diagnostics), len(want), w.version, w.op.Doc, trimText(w.content))
			}
		case m.ID != nil && m.Method == "":
			id, _ := strconv.Atoi(string(*m.ID))
			if id == 1 {
				initialized = true
				if m.Error != nil {
					return failf("initialize-fails", "initialize with one workspace folder fails: %s", m.Error.Message)
				}
				continue
			}
			if id == sentinel {
				sentinelSeen = true
				continue
			}
			p := defs[id]
			if p == nil {
				continue
			}
			gotDefs++
			if m.Error != nil {
				if p.open && p.ident != "" {
					return failf("definition-error-on-identifier", "definition at %d:%d (on identifier %q) fails with %q; document:\n%s", p.line, p.char, p.ident, m.Error.Message, trimText(p.content))
				}
				continue
			}
			if !p.open {
				return failf("definition-on-closed-document", "definition on doc%d, which is not open at that point, returns a result; history %s", p.op.Doc, history())
			}
			var locs []struct {
				URI   string
				Range struct {
					Start struct{ Line, Character int }
					End   struct{ Line, Character int }
				}
			}
			if err := json.Unmarshal(m.Result, &locs); err != nil {
				return failf("bad-response", "cannot decode the definition result %s: %v", string(m.Result), err)
			}
			for _, loc := range locs {
				s, sok := lspOffset(p.content, loc.Range.Start.Line, loc.Range.Start.Character)
				e, eok := lspOffset(p.content, loc.Range.End.Line, loc.Range.End.Character)
				if loc.URI != uri(p.op.Doc) || !sok || !eok || e < s {
					return failf("definition-range-outside-document", "definition at %d:%d returns %s %d:%d-%d:%d which is not a UTF-16 range inside the latest content; document:\n%s", p.line, p.char, loc.URI, loc.Range.Start.Line, loc.Range.Start.Character, loc.Range.End.Line, loc.Range.End.Character, trimText(p.content))
				}
				if p.ident != "" && p.content[s:e] != p.ident {
					return failf("definition-wrong-text", "definition on identifier %q (at %d:%d) returns the range %d:%d-%d:%d, which reads %q in the latest content; document:\n%s", p.ident, p.line, p.char, loc.Range.Start.Line, loc.Range.Start.Character, loc.Range.End.Line, loc.Range.End.Character, p.content[s:e], trimText(p.content))
				}
				sawDefResult = true
			}
		}
	}
	// the server must still be alive
	select {
	case <-cl.exited:
		return failf("server-crashed", "the server exited (%v) after the history %s; stderr: %s", cl.cmd.ProcessState, history(), cl.stderrTail())
	default:
	}
	if len(wantDiags) >= 2 && (sawDefResult || sawUnicodeDiag) {
		js, _ := json.Marshal(c)
		r.Nontrivial(string(js))
		if sawUnicodeDiag {
			r.Class("diagnostic-on-a-line-with-non-ASCII-text")
		}
		if sawDefResult {
			r.Class("definition-with-locations")
		}
		if r.WantSample() {
			r.Sample(map[string]any{"history": history()})
		}
	}
	return nil
}

func isASCII(s string) bool {
	for i := 0; i < len(s); i++ {
		if s[i] >= 0x80 {
			return false
		}
	}
	return true
}

func TestC23(t *testing.T) {
	p := &prop[c23Case]{
		ID:   "C23",
		Rule: "histories of 1..10 protocol messages over up to 3 documents: didOpen, didChange (full text, increasing versions), didClose, definition (cursor on a generated identifier token, or anywhere when there is none; also on closed documents); document contents from the tm corpus of C20 (valid grammars, mutated ones, byte soup made valid UTF-8) with 0..3 insertions of non-ASCII text (Cyrillic, accented letters, arrows, astral characters) in comments, strings and terminals. Each history is sent as one burst to a freshly started `textmapper ls` process built from /repo (race detector in the thorough tier) after initialize; the answers are read from its stdout. Checked: the process stays alive; one publishDiagnostics per open/change, in request order, carrying that document's version; every diagnostic range decodes as UTF-16 positions inside that version's text and equals the range of the corresponding compiler.Compile problem converted to UTF-16 units (first line of the range); definition answers refer to the content that was current in request order, only to the same document, and every returned range reads exactly the identifier under the cursor; a definition on an open document's identifier does not fail. Non-trivial: a history with >= 2 diagnostics publications and a definition answer with locations or a diagnostic on a line with non-ASCII text.",
		Assume: []string{"messages are those a conforming client sends (one full-text content change per didChange, valid UTF-8)", "goroutine scheduling is whatever the Go runtime does with a burst of pipelined requests; it is not enumerated"},
		Quick:  800, Thorough: 16000,
		Gen:   c23Gen,
		Check: c23Check,
	}
	if _, err := c23Build(); err != nil {
		t.Fatalf("INFRA %v", err)
	}
	p.run(t)
}
