package props

import (
	"encoding/json"
	"fmt"
	"os"
	"path/filepath"
	"sort"
	"sync"
	"testing"

	"pgregory.net/rapid"

	"verif/harness/internal/batch"
	"verif/harness/internal/ev"
)

// batchProp drives a generated-code ("tier B") check: N cases are drawn from a rapid generator
// (Generator.Example(seed*K+i), a pure function of VERIF_SEED), compiled and generated in
// process, built as packages of one scratch module and exercised through a driver subprocess.
type batchProp[C any] struct {
	ID        string
	Rule      string
	Assume    []string
	Quick     int // total number of cases (all shards)
	Thorough  int
	BatchSize int
	Race      bool
	Gen       func(t *rapid.T) C
	// Unit renders the case as a generation unit; ok=false skips the case.
	Unit func(c C, name string) (batch.Unit, bool)
	// Check exercises the built unit. run executes one request against the generated code.
	Check func(c C, res *batch.Result, run runFunc, r *ev.Recorder) *Failure
	// OnGenerated is called for every unit before building (C17/C18/C30 decide here).
	OnGenerated func(c C, res *batch.Result, r *ev.Recorder) *Failure
	// OnNotBuilt is called for units whose package failed to build.
	OnNotBuilt func(c C, res *batch.Result, r *ev.Recorder) *Failure
	Vet        bool
	// Twin optionally renders a second unit per case (built in the same batch); Check finds it
	// in currentTwin.
	Twin func(c C, name string) (batch.Unit, bool)
}

type twinInfo struct {
	res *batch.Result
	run runFunc
}

// currentTwin is set by the batch runner while Check runs (checks are sequential).
var currentTwin *twinInfo

// runFunc executes VerifRun(entry, src, arg) of the unit; hang/died report abnormal termination.
type runFunc func(entry int, src, arg string) (out string, panicMsg string, err error)

func scratchDir() string {
	d := os.Getenv("VERIF_SCRATCH")
	if d == "" {
		d, _ = os.MkdirTemp("/var/tmp", "verif-b.")
	}
	return d
}

func goBin() string {
	if g := os.Getenv("VERIF_GO"); g != "" {
		return g
	}
	return "go"
}

func (p *batchProp[C]) run(t *testing.T) {
	currentTestName = t.Name()
	rec := ev.New(p.ID)
	rec.Rule(p.Rule)
	for _, a := range p.Assume {
		rec.Assume(a)
	}
	known := loadKnown(p.ID)
	failed, completed := false, false
	shardIdx, shards := shard()

	defer func() {
		if out := os.Getenv("VERIF_SHARD_OUT"); out != "" {
			if err := rec.Write(out, failed, completed); err != nil {
				fmt.Printf("EVIDENCE-ERROR %v\n", err)
			}
		}
		if failed {
			path := writeReplay(p.ID, rec)
			fmt.Printf("VIOLATION property=%s replay=%s\n", p.ID, path)
			fmt.Printf("VIOLATION-DETAIL key=%q %s\n", rec.FailKey, oneLine(rec.FailMsg, 700))
		}
	}()

	filter := func(f *Failure) *Failure {
		if f != nil {
			if k, ok := known[f.Key]; ok {
				rec.KnownHit(f.Key)
				_ = k
				return nil
			}
		}
		return f
	}

	// runBatch processes cases; returns the first failure with its case.
	batchNo := 0
	type failRec struct {
		f *Failure
		c C
	}
	var runBatchAll func(cases []C, all bool) []failRec
	runBatch := func(cases []C, replay bool) (*Failure, *C) {
		fr := runBatchAll(cases, false)
		if len(fr) == 0 {
			return nil, nil
		}
		return fr[0].f, &fr[0].c
	}
	runBatchAll = func(cases []C, all bool) (fails []failRec) {
		batchNo++
		dir := filepath.Join(scratchDir(), fmt.Sprintf("b%d", batchNo))
		defer os.RemoveAll(dir)
		units := make([]batch.Unit, 0, len(cases))
		idx := make([]int, 0, len(cases))
		for i, c := range cases {
			u, ok := p.Unit(c, fmt.Sprintf("g%03d", i))
			if !ok {
				continue
			}
			units = append(units, u)
			idx = append(idx, i)
		}
		// Twin units (e.g. the same grammar without error recovery) follow the primary ones.
		nPrimary := len(units)
		twinOf := map[int]int{}
		if p.Twin != nil {
			for k := 0; k < nPrimary; k++ {
				if u2, ok := p.Twin(cases[idx[k]], units[k].Name+"t"); ok {
					twinOf[k] = len(units)
					units = append(units, u2)
				}
			}
		}
		results := make([]batch.Result, len(units))
		var wg sync.WaitGroup
		sem := make(chan struct{}, 8)
		for i := range units {
			wg.Add(1)
			sem <- struct{}{}
			go func(i int) {
				defer wg.Done()
				defer func() { <-sem }()
				results[i] = batch.Generate(&units[i])
			}(i)
		}
		wg.Wait()
		if p.OnGenerated != nil {
			for i := 0; i < nPrimary; i++ {
				c := cases[idx[i]]
				f := guard(func() *Failure { return p.OnGenerated(c, &results[i], rec) })
				if f = filter(f); f != nil {
					fails = append(fails, failRec{f, c})
					if !all {
						return fails
					}
					results[i].GenErr = fmt.Errorf("already failed")
				}
			}
		}
		if p.Check == nil && p.OnNotBuilt == nil {
			return fails // generation-only property: nothing to build
		}
		anyOK := false
		for i := range results {
			if results[i].CompileErr != nil && p.OnGenerated == nil {
				rec.Excluded("grammar-rejected-by-compiler(conflicts etc.)")
			}
			if results[i].Files != nil && results[i].GenErr == nil && results[i].CompileErr == nil {
				anyOK = true
			}
		}
		if !anyOK {
			return fails
		}
		runner, err := batch.Build(filepath.Join(dir, "mod"), units, results, goBin(), p.Race)
		if err != nil {
			t.Fatalf("INFRA scratch build failed: %v", err)
		}
		defer runner.Close()
		if p.Vet {
			var names []string
			for i := range units {
				if results[i].Built {
					names = append(names, units[i].Name)
				}
			}
			for n, log := range batch.Vet(filepath.Join(dir, "mod"), names, goBin()) {
				for i := range units {
					if units[i].Name == n {
						results[i].BuildLog = "go vet: " + log
						results[i].Built = false
					}
				}
			}
		}
		for i := 0; i < nPrimary; i++ {
			c := cases[idx[i]]
			res := &results[i]
			if res.Files == nil || res.GenErr != nil || res.CompileErr != nil {
				continue
			}
			currentTwin = nil
			if ti, ok := twinOf[i]; ok && results[ti].Built {
				tname := units[ti].Name
				currentTwin = &twinInfo{res: &results[ti], run: func(entry int, src, arg string) (string, string, error) {
					return runner.Run(tname, entry, src, arg)
				}}
			}
			if !res.Built {
				if p.OnNotBuilt != nil {
					if f := filter(p.OnNotBuilt(c, res, rec)); f != nil {
						fails = append(fails, failRec{f, c})
						if !all {
							return fails
						}
					}
				} else {
					rec.Excluded("generated-code-does-not-build(see C17)")
					if os.Getenv("VERIF_DEBUG") != "" {
						fmt.Printf("NOT BUILT %s:\n%s\n", units[i].Name, res.BuildLog)
					}
				}
				continue
			}
			if p.Check == nil {
				continue
			}
			name := units[i].Name
			run := func(entry int, src, arg string) (string, string, error) {
				return runner.Run(name, entry, src, arg)
			}
			f := guard(func() *Failure { return p.Check(c, res, run, rec) })
			if f = filter(f); f != nil {
				fails = append(fails, failRec{f, c})
				if !all {
					return fails
				}
			}
		}
		return fails
	}

	// Replay of one file.
	if path := os.Getenv("VERIF_REPLAY"); path != "" {
		data, err := os.ReadFile(path)
		if err != nil {
			t.Fatalf("cannot read replay: %v", err)
		}
		var rf replayFile
		var c C
		if json.Unmarshal(data, &rf) != nil || json.Unmarshal(rf.Case, &c) != nil {
			t.Fatalf("bad replay file")
		}
		saveKnown := known
		known = map[string]knownFinding{}
		f, _ := runBatch([]C{c}, true)
		known = saveKnown
		completed = true
		if f != nil {
			if k, ok := known[f.Key]; ok {
				fmt.Printf("KNOWN-FINDING: property=%s %s\n", p.ID, k.What)
				return
			}
			rec.Fail(f.Key, c, f.Msg)
			failed = true
			t.Errorf("replay fails: %s", f.Msg)
		}
		return
	}

	// Saved counterexamples first (shard 0).
	if shardIdx == 0 {
		files, _ := filepath.Glob(filepath.Join(verifDir(), "replay", p.ID, "*.json"))
		sort.Strings(files)
		var saved []C
		for _, file := range files {
			data, err := os.ReadFile(file)
			if err != nil {
				continue
			}
			var rf replayFile
			var c C
			if json.Unmarshal(data, &rf) != nil || (rf.Test != "" && rf.Test != currentTestName) || json.Unmarshal(rf.Case, &c) != nil {
				continue
			}
			saved = append(saved, c)
		}
		if len(saved) > 0 {
			rec.ClassN("replayed-saved-case", len(saved))
			saveKnown := known
			known = map[string]knownFinding{}
			fr := runBatchAll(saved, true)
			known = saveKnown
			for _, x := range fr {
				if k, ok := known[x.f.Key]; ok {
					fmt.Printf("KNOWN-FINDING: property=%s %s\n", p.ID, k.What)
					rec.KnownHit(x.f.Key)
					continue
				}
				rec.Fail(x.f.Key, x.c, x.f.Msg)
				failed = true
				t.Errorf("saved case fails: %s", x.f.Msg)
				return
			}
		}
	}

	total := cases(p.Quick, p.Thorough) // per shard
	gen := rapid.Custom(p.Gen)
	base := seed()*1000003 + shardIdx*100003
	_ = shards
	for done := 0; done < total; {
		n := p.BatchSize
		if n > total-done {
			n = total - done
		}
		cs := make([]C, 0, n)
		for i := 0; i < n; i++ {
			cs = append(cs, gen.Example(base+done+i))
		}
		done += n
		f, c := runBatch(cs, false)
		if f != nil {
			rec.Fail(f.Key, *c, f.Msg)
			failed = true
			t.Errorf("%s", f.Msg)
			return
		}
	}
	completed = true
}
