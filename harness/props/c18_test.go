package props

import (
	"context"
	"crypto/sha256"
	"encoding/hex"
	"encoding/json"
	"fmt"
	"os"
	"os/exec"
	"path/filepath"
	"sort"
	"strings"
	"testing"

	"github.com/inspirer/textmapper/compiler"
	"github.com/inspirer/textmapper/gen"
	"pgregory.net/rapid"

	"verif/harness/internal/ev"
)

// C18 — generation is deterministic (metamorphic: same grammar => same bytes, regardless of
// repetition, of other generations in between, of the process and of GOMAXPROCS).

type c18Case struct {
	C30      c30Case `json:"c"`
	Keywords int     `json:"keywords"`
	Shipped  string  `json:"shipped,omitempty"` // path below /repo of a shipped grammar, instead of C30
	Procs    bool    `json:"procs"`
	// Target "cc" / "ts": the same grammar generated for another target language (generation
	// only); "cc" gives every nonterminal one of five C++ types and sets variantStackEntry, so
	// that the cast tables of the C++ parser are exercised.
	Target string `json:"target,omitempty"`
	Flex   bool   `json:"flex,omitempty"` // cc: flexMode = true (no generated lexer)
}

var c18Shipped = []string{"parsers/js/js.tm", "parsers/tm/textmapper.tm", "parsers/json/json.tm", "parsers/test/test.tm", "parsers/simple/simple.tm"}

func c18Gen(t *rapid.T) c18Case {
	if rapid.IntRange(1, 60).Draw(t, "shipped") == 60 {
		return c18Case{Shipped: c18Shipped[rapid.IntRange(0, len(c18Shipped)-1).Draw(t, "which")], Procs: rapid.IntRange(0, 3).Draw(t, "procs") == 0}
	}
	c := c18Case{C30: c30Gen(t), Keywords: rapid.IntRange(0, 12).Draw(t, "keywords"), Procs: rapid.IntRange(0, 5).Draw(t, "procs") == 0}
	switch rapid.IntRange(0, 9).Draw(t, "target") {
	case 0, 1:
		c.Target, c.Keywords = "cc", 0
		c.Flex = rapid.IntRange(0, 3).Draw(t, "flex") == 0
	case 2:
		c.Target, c.Keywords = "ts", 0
	}
	if rapid.IntRange(0, 3).Draw(t, "markerDense") == 0 {
		// the same state marker in many places, twin alternatives that differ in their first
		// terminal only (their states behind it are merged by minimizeDFA), minimizeDFA on
		g := &c.C30.C17.G
		for _, nt := range g.NTs {
			for _, a := range nt.Alts {
				if len(a.Parts) > 0 && rapid.IntRange(0, 2).Draw(t, "marked") > 0 {
					pos := rapid.IntRange(1, len(a.Parts)).Draw(t, "markAt")
					a.Parts = append(a.Parts[:pos:pos], append([]*egPart{{K: "mark", Sym: 0}}, a.Parts[pos:]...)...)
				}
			}
			if len(nt.Alts) > 0 && len(nt.Alts) < 4 && rapid.Bool().Draw(t, "twin") {
				var cp egAlt
				js, _ := json.Marshal(nt.Alts[rapid.IntRange(0, len(nt.Alts)-1).Draw(t, "twinOf")])
				json.Unmarshal(js, &cp)
				if len(cp.Parts) > 1 && cp.Parts[0].K == "t" {
					used := map[int]bool{}
					for _, a := range nt.Alts {
						if len(a.Parts) > 0 && a.Parts[0].K == "t" {
							used[a.Parts[0].Sym] = true
						}
					}
					for s := 1; s < g.T; s++ {
						if !used[s] {
							cp.Parts[0].Sym = s
							nt.Alts = append(nt.Alts, &cp)
							break
						}
					}
				}
			}
		}
		c.C30.C17.Opts["minimizeDFA"] = "true"
	}
	return c
}

// otherTarget rewrites the Go grammar of the case for the cc / ts templates.
func (c *c18Case) otherTarget() string {
	c17 := c.C30.C17
	opts := map[string]string{}
	for _, k := range []string{"optimizeTables", "eventBased", "defaultReduce"} {
		if v, ok := c17.Opts[k]; ok {
			opts[k] = v
		}
	}
	if c.Target == "cc" {
		opts["namespace"] = `"g"`
		opts["variantStackEntry"] = "true"
		types := []string{"int", "double", "bool", "std::string", "char"}
		for i, nt := range c17.G.NTs {
			name := nt.Name
			if nn, ok := c17.Names[name]; ok {
				name = nn
			}
			opts["__ntType:"+name] = " {" + types[(i*3+len(nt.Alts))%len(types)] + "}"
		}
		opts["__termType"] = " {int}"
		if c.Flex {
			opts["flexMode"] = "true"
		}
	}
	if v, ok := c17.Opts["minimizeDFA"]; ok {
		opts["minimizeDFA"] = v
	}
	c17.Opts = opts
	c17.Inject = false
	src := c17.render("g")
	src = strings.Replace(src, "package = \"scratch/g\"\n", "", 1) // a Go-only option
	return strings.Replace(src, "language g(go);", "language g("+c.Target+");", 1)
}

func (c *c18Case) source() (name, text string, err error) {
	if c.Shipped != "" {
		data, err := os.ReadFile(filepath.Join("/repo", c.Shipped))
		return filepath.Join("/repo", c.Shipped), string(data), err
	}
	if c.Target != "" {
		return "g.tm", c.otherTarget(), nil
	}
	cc := c.C30
	if c.Keywords > 0 {
		var sb strings.Builder
		sb.WriteString("word: /[g-z]+/ (class)\n")
		for i := 0; i < c.Keywords; i++ {
			kw := "kw" + strings.Repeat(string(rune('g'+i%15)), 1+i/15) + string(rune('h'+i%13))
			fmt.Fprintf(&sb, "'%s': /%s/\n", kw, kw)
		}
		if cc.C17.Opts == nil {
			cc.C17.Opts = map[string]string{}
		}
		opts := map[string]string{}
		for k, v := range cc.C17.Opts {
			opts[k] = v
		}
		cc.C17.Opts = opts
		// appended to the raw lexer section through the render hook
		c17 := cc.C17
		src := c17.render("g")
		src = strings.Replace(src, ":: lexer\n\n", ":: lexer\n\n"+sb.String(), 1)
		return "g.tm", src, nil
	}
	return "g.tm", cc.render("g"), nil
}

func c18Generate(name, text string) (string, map[string]string, error) {
	g, err := compiler.Compile(context.Background(), name, text, compiler.Params{})
	if err != nil {
		return "", nil, err
	}
	w := &c18Writer{files: map[string]string{}}
	if err := gen.Generate(g, w, gen.Options{}); err != nil {
		return "", nil, fmt.Errorf("generate: %w", err)
	}
	return c18Hash(w.files), w.files, nil
}

type c18Writer struct{ files map[string]string }

func (w *c18Writer) Write(name, content string) error {
	w.files[name] = content
	return nil
}

func c18Hash(files map[string]string) string {
	var names []string
	for n := range files {
		names = append(names, n)
	}
	sort.Strings(names)
	h := sha256.New()
	for _, n := range names {
		fmt.Fprintf(h, "%s\x00%d\x00%s\x00", n, len(files[n]), files[n])
	}
	return hex.EncodeToString(h.Sum(nil))
}

func c18FirstDiff(a, b map[string]string) string {
	var names []string
	for n := range a {
		names = append(names, n)
	}
	sort.Strings(names)
	for _, n := range names {
		if a[n] != b[n] {
			la, lb := strings.Split(a[n], "\n"), strings.Split(b[n], "\n")
			for i := 0; i < len(la) && i < len(lb); i++ {
				if la[i] != lb[i] {
					return fmt.Sprintf("%s line %d: %q vs %q", n, i+1, la[i], lb[i])
				}
			}
			return fmt.Sprintf("%s: lengths differ", n)
		}
	}
	return "file sets differ"
}

// TestC18Worker is the out-of-process generator: prints "HASH <sha256>" for VERIF_C18_FILE.
func TestC18Worker(t *testing.T) {
	path := os.Getenv("VERIF_C18_FILE")
	if path == "" {
		t.Skip("worker entry point")
	}
	data, err := os.ReadFile(path)
	if err != nil {
		fmt.Println("ERR read")
		return
	}
	name := os.Getenv("VERIF_C18_NAME")
	func() {
		defer func() {
			if r := recover(); r != nil {
				fmt.Println("ERR crash")
			}
		}()
		h, _, err := c18Generate(name, string(data))
		if err != nil {
			fmt.Println("ERR", firstWords(err.Error(), 6))
			return
		}
		fmt.Println("HASH", h)
	}()
}

var c18Others = []string{
	"language o1(go);\npackage = \"x/o1\"\neventBased = true\n:: lexer\n'a': /a/\n'b': /b/\n:: parser\n%input S;\nS -> Root: 'a' T | 'b' ;\nT -> Leaf: 'b' 'b' ;\n",
	"language o2(go);\npackage = \"x/o2\"\n:: lexer\nid: /[a-z]+/ (class)\n'if': /if/\n'else': /else/\n'for': /for/\n'while': /while/\n'do': /do/\n'end': /end/\nnum: /[0-9]+/\n:: parser\n%input P;\nP: 'if' id 'else' num | 'for' 'while' 'do' 'end' ;\n",
	// the other targets, with and without a generated lexer
	"language o3(cc);\nnamespace = \"o3\"\nflexMode = true\n:: lexer\n'a': /a/\n'b': /b/\n:: parser\n%input S;\nS: 'a' 'b' ;\n",
	"language o4(cc);\nnamespace = \"o4\"\n:: lexer\n'a': /a/\n'b': /b/\n:: parser\n%input S;\nS: 'a' 'b' ;\n",
	"language o5(ts);\n:: lexer\n'a': /a/\n:: parser\n%input S;\nS: 'a' ;\n",
	// a mid-rule action behind two symbols in a rule that expands into several productions
	"language o6(go);\npackage = \"x/o6\"\n:: lexer\n'a': /a/\n'b': /b/\n'c': /c/\n'd': /d/\n:: parser\n%input S;\nS: 'a' 'b' { println(\"mid\") } 'c'? 'd' | 'b' 'a' 'b' { println(\"mid\") } 'c'? 'd'? 'a' ;\n",
	// the same unicode class with and without case folding
	"language o7(go);\npackage = \"x/o7\"\n:: lexer\nup: /\\p{Lu}+/\nlo: /\\p{Ll}[0-9]/\n:: parser\n%input S;\nS: up lo ;\n",
	"language o8(go);\npackage = \"x/o8\"\ncaseInsensitive = true\n:: lexer\nup: /\\p{Lu}+/\nnum: /[0-9]\\p{Ll}/\n:: parser\n%input S;\nS: up num ;\n",
	// compiles, but rendering the parser fails (unknown reference in an action)
	"language o9(go);\npackage = \"x/o9\"\n:: lexer\n'a': /a/\n:: parser\n%input S;\nS: 'a' { println($nosuch) } ;\n",
}

var c18History struct {
	done bool
	fail *Failure
}

// c18HistoryCheck generates the fixed grammars of c18Others four times round robin (once per
// process): every grammar has to come out the same each time, whatever was generated — or
// failed to generate — in between.
func c18HistoryCheck() *Failure {
	if c18History.done {
		return c18History.fail
	}
	c18History.done = true
	first := map[int]string{}
	firstFiles := map[int]map[string]string{}
	for round := 0; round < 4; round++ {
		for i, o := range c18Others {
			h, files, err := c18Generate(fmt.Sprintf("o%d.tm", i+1), o)
			if err != nil {
				h = "error: " + firstWords(err.Error(), 8)
			}
			if round == 0 {
				first[i], firstFiles[i] = h, files
			} else if h != first[i] {
				c18History.fail = failf("history-grammar-differs", "fixed grammar %d of the generation history came out differently in round %d (%s vs %s): %s\ngrammar:\n%s", i+1, round+1, first[i][:min(12, len(first[i]))], h[:min(12, len(h))], c18FirstDiff(firstFiles[i], files), o)
				return c18History.fail
			}
		}
	}
	// ... and the same as in a process that has generated nothing else
	for i, o := range c18Others {
		if strings.HasPrefix(first[i], "error: ") {
			continue
		}
		name := fmt.Sprintf("o%d.tm", i+1)
		if fresh, out := c18FreshHash(name, o); fresh == "" {
			c18History.fail = failf("worker-failed", "a fresh process could not generate fixed grammar %d which this process generated: %s", i+1, out)
			return c18History.fail
		} else if fresh != first[i] {
			c18History.fail = failf("history-grammar-differs-across-processes", "fixed grammar %d of the generation history: a fresh process produces sha256 %s, this process (after the other history grammars) %s\ngrammar:\n%s", i+1, fresh[:12], first[i][:12], o)
			return c18History.fail
		}
	}
	return nil
}

func c18Check(c c18Case, r *ev.Recorder) *Failure {
	if f := c18HistoryCheck(); f != nil {
		return f
	}
	name, text, err := c.source()
	if err != nil {
		return nil
	}
	h1, f1, err := c18Generate(name, text)
	r.Eval(1)
	if err != nil {
		r.Excluded("not-accepted" + map[bool]string{true: ":" + c.Target, false: ""}[c.Target != ""])
		if os.Getenv("VERIF_DEBUG") != "" && c.Target != "" {
			fmt.Printf("C18 %s not accepted: %v\n", c.Target, oneLine(err.Error(), 200))
		}
		return nil
	}
	if c.Target != "" {
		r.Class("target:" + c.Target)
	}
	h2, f2, err := c18Generate(name, text)
	r.Eval(1)
	if err != nil || h1 != h2 {
		return failf("differs-on-repeat", "two consecutive generations of the same grammar differ: %s (err=%v)\ngrammar %s", c18FirstDiff(f1, f2), err, name)
	}
	for _, o := range c18Others {
		c18Generate("o.tm", o)
	}
	h3, f3, err := c18Generate(name, text)
	r.Eval(1)
	if err != nil || h1 != h3 {
		return failf("differs-after-other-generations", "generating other grammars in between changed the output: %s (err=%v)\ngrammar %s", c18FirstDiff(f1, f3), err, name)
	}
	if c.Shipped != "" {
		// regenerated files must equal the committed ones
		dir := filepath.Dir(filepath.Join("/repo", c.Shipped))
		for fn, content := range f1 {
			disk, err := os.ReadFile(filepath.Join(dir, fn))
			if err != nil {
				return failf("shipped-file-missing", "regenerating %s writes %s which is not committed", c.Shipped, fn)
			}
			if string(disk) != content {
				return failf("shipped-differs:"+c.Shipped, "regenerating %s does not reproduce the committed %s: %s", c.Shipped, fn, c18FirstDiff(map[string]string{fn: string(disk)}, map[string]string{fn: content}))
			}
		}
		r.Class("shipped-grammar-reproduced")
	}
	// cc/ts cases always meet one fresh process: this process has generated for every target
	// before (c18Others, earlier cases), the fresh one has no history at all
	if c.Procs || c.Target != "" {
		tmp := filepath.Join(scratchDir(), fmt.Sprintf("c18-%d.tm", os.Getpid()))
		os.MkdirAll(filepath.Dir(tmp), 0o755)
		if err := os.WriteFile(tmp, []byte(text), 0o644); err == nil {
			defer os.Remove(tmp)
			procs := []string{"1", "2", "16"}
			if !c.Procs {
				procs = []string{"4"}
			} else if c.Shipped != "" {
				procs = []string{"1", "16"}
			} else if tier() == "thorough" {
				procs = []string{"1", "1", "2", "2", "3", "4", "8", "16", "16", "16"}
			}
			for _, mp := range procs {
				cmd := exec.Command(os.Args[0], "-test.run", "^TestC18Worker$", "-test.count", "1")
				cmd.Env = append(os.Environ(), "VERIF_C18_FILE="+tmp, "VERIF_C18_NAME="+name, "GOMAXPROCS="+mp, "VERIF_SHARD_OUT=", "VERIF_REPLAY=")
				out, _ := cmd.CombinedOutput()
				r.Eval(1)
				got := ""
				for _, l := range strings.Split(string(out), "\n") {
					if strings.HasPrefix(l, "HASH ") {
						got = strings.TrimPrefix(l, "HASH ")
					}
				}
				if got == "" {
					return failf("worker-failed", "a fresh process (GOMAXPROCS=%s) could not generate the grammar that this process generated: %s", mp, oneLine(string(out), 300))
				}
				if got != h1 {
					return failf("differs-across-processes", "a fresh process with GOMAXPROCS=%s produced different bytes (sha256 %s vs %s)\ngrammar:\n%s", mp, got[:12], h1[:12], text)
				}
			}
			r.Class("cross-process")
		}
	}
	feats := 0
	for _, s := range []string{"(?=", "set(", "{ _ = 0 }", "lalr(", "(class)", "%left", "%right", "writeBison", "eventFields"} {
		if strings.Contains(text, s) {
			feats++
		}
	}
	if feats >= 2 {
		r.Nontrivial(text)
		if r.WantSample() && c.Shipped == "" {
			r.Sample(map[string]any{"grammar": text, "files": len(f1), "sha256": h1[:16], "cross_process": c.Procs})
		}
	}
	return nil
}

func TestC18(t *testing.T) {
	if os.Getenv("VERIF_C18_FILE") != "" {
		t.Skip()
	}
	p := &prop[c18Case]{
		ID:   "C18",
		Rule: "C30/C17's grammar+option generator (sets, lookaheads, lalr(k), mid-rule actions, precedence, event fields/AST, Bison export) plus 0..12 keywords specialised from a (class) lexer rule (keyword hash switch), and 1 in 60 cases one of the five shipped grammars; 3 in 10 cases the grammar is rendered for the cc (typed nonterminals, variantStackEntry, 1 in 4 flexMode) or ts target; 1 in 4 cases are marker-dense (one state marker in two thirds of the alternatives, twin alternatives differing in the first terminal, minimizeDFA on). Per case: two consecutive in-process generations, then a third after generating nine unrelated grammars, must be byte-identical (all files); the nine fixed history grammars themselves (go/cc/ts, flexMode, a mid-rule action in a rule with several expansions, \\p{Lu} with and without caseInsensitive, one whose parser template fails to render) are generated four times round robin once per process and must come out the same each time and the same as in a fresh process that generates nothing else; every cc/ts case is also regenerated by one fresh process (no history); for shipped grammars the regenerated files must equal the committed ones; for 1 in 6 cases (1 in 4 shipped) fresh processes with GOMAXPROCS in {1,2,16} (thorough: 10 processes) regenerate the grammar and must produce the same sha256 (Go randomises map iteration per map, so every generation is a new sample of every map order). Non-trivial: grammar text with >=2 map-backed/ordering-sensitive features; distinct by grammar text.",
		Assume: []string{"a map-order dependency whose variants are very unlikely can need more repetitions than any budget; repetition counts are reported"},
		Quick: 400, Thorough: 6000,
		Gen:   c18Gen,
		Check: c18Check,
	}
	p.run(t)
}
