package props

import (
	"fmt"
	"sort"
	"strings"
)

// Rendering of plain grammar specs as Textmapper (.tm) source for the generated-code tier.

type tmOpts struct {
	Name      string            // package / language name, e.g. g003
	Options   map[string]string // option = value lines
	Space     bool              // add a skipped space token
	MidRule   map[int]int       // rule index -> position of a mid-rule action "{ _ = 0 }"
	Markers   map[int]int       // rule index -> position of a state marker
	EventNode map[int]string    // rule index -> "-> Name" annotation
	Header    string            // extra text after the options
	ParserPre string            // extra directives at the top of the parser section
}

func tmTermName(g *gSpec, s int) string { return "'" + g.symName(s) + "'" }

// toTM renders the grammar. Rules are grouped by nonterminal in order of first appearance.
func (g *gSpec) toTM(o tmOpts) string {
	var sb strings.Builder
	fmt.Fprintf(&sb, "language %s(go);\n\npackage = \"scratch/%s\"\n", o.Name, o.Name)
	keys := make([]string, 0, len(o.Options))
	for k := range o.Options {
		keys = append(keys, k)
	}
	sort.Strings(keys)
	for _, k := range keys {
		fmt.Fprintf(&sb, "%s = %s\n", k, o.Options[k])
	}
	sb.WriteString(o.Header)
	sb.WriteString("\n:: lexer\n\n")
	if o.Space {
		sb.WriteString("space: /[ \\t\\n]+/ (space)\n")
	}
	for t := 1; t < g.T; t++ {
		fmt.Fprintf(&sb, "%s: /%s/\n", tmTermName(g, t), g.symName(t))
	}
	sb.WriteString("\n:: parser\n\n")
	sb.WriteString(o.ParserPre)
	sb.WriteString("%input ")
	for i, inp := range g.Inputs {
		if i > 0 {
			sb.WriteString(", ")
		}
		sb.WriteString(g.symName(inp.NT))
		if !inp.Eoi {
			sb.WriteString(" no-eoi")
		}
	}
	sb.WriteString(";\n\n")
	for _, p := range g.Prec {
		sb.WriteString([]string{"%left", "%right", "%nonassoc"}[p.Assoc])
		for _, t := range p.Terms {
			sb.WriteString(" " + tmTermName(g, t))
		}
		sb.WriteString(";\n")
	}
	var order []int
	byLHS := map[int][]int{}
	for i, r := range g.Rules {
		if _, ok := byLHS[r.L]; !ok {
			order = append(order, r.L)
		}
		byLHS[r.L] = append(byLHS[r.L], i)
	}
	for _, lhs := range order {
		fmt.Fprintf(&sb, "%s:\n", g.symName(lhs))
		for k, ri := range byLHS[lhs] {
			r := g.Rules[ri]
			if k == 0 {
				sb.WriteString("    ")
			} else {
				sb.WriteString("  | ")
			}
			var parts []string
			for pos, s := range r.R {
				if mp, ok := o.MidRule[ri]; ok && mp == pos && pos > 0 {
					parts = append(parts, "{ _ = 0 }")
				}
				if mk, ok := o.Markers[ri]; (ok && mk == pos) || (!ok && r.Mark == pos+1) {
					parts = append(parts, ".mark"+fmt.Sprint(ri%3))
				}
				if s < g.T {
					parts = append(parts, tmTermName(g, s))
				} else {
					parts = append(parts, g.symName(s))
				}
			}
			if mk, ok := o.Markers[ri]; (ok && mk == len(r.R)) || (!ok && r.Mark == len(r.R)+1) {
				parts = append(parts, ".mark"+fmt.Sprint(ri%3)) // at the end / alone in an empty rule
			}
			if len(r.R) == 0 {
				parts = append(parts, "%empty")
			}
			if r.Prec != 0 {
				parts = append(parts, "%prec "+tmTermName(g, r.Prec))
			}
			if n, ok := o.EventNode[ri]; ok {
				parts = append(parts, "-> "+n)
			}
			sb.WriteString(strings.Join(parts, " "))
			sb.WriteString("\n")
		}
		sb.WriteString(";\n\n")
	}
	return sb.String()
}

// tokensToSource renders a token string as source text; with spaces the i-th token starts at
// the returned offsets[i]. offsets[len(toks)] is the end-of-input offset.
func tokensToSource(g *gSpec, toks []int, spaces bool, seed int) (string, []int) {
	var sb strings.Builder
	offsets := make([]int, 0, len(toks)+1)
	rnd := &lcg{uint64(seed)}
	for _, t := range toks {
		if spaces {
			switch rnd.next(4) {
			case 0:
				sb.WriteByte(' ')
			case 1:
				sb.WriteString(" \n")
			}
		}
		offsets = append(offsets, sb.Len())
		sb.WriteString(g.symName(t))
	}
	if spaces && rnd.next(2) == 0 {
		sb.WriteString("  ")
	}
	offsets = append(offsets, sb.Len())
	return sb.String(), offsets
}
