package props

import (
	"encoding/json"
	"fmt"
	"testing"

	"github.com/inspirer/textmapper/lalr"
	"pgregory.net/rapid"

	"verif/harness/internal/ev"
	"verif/harness/internal/oracle"
	"verif/harness/internal/tabint"
)

// C07 — LALR(k) resolution never changes the accepted language. Oracle: Earley recogniser.

type c07Case struct {
	G     gSpec   `json:"g"`
	K     int     `json:"k"`
	Seed  int     `json:"seed"`
	Extra [][]int `json:"extra,omitempty"`
}

var c07Families = []string{
	"S: A b c | B b d ; A: a ; B: a",
	"S: X c | Y d ; X: A b ; Y: B b ; A: a ; B: a",
	"S: A b c | Y d ; Y: B b ; A: a ; B: a",
	"S: A b b c | B b b d ; A: a ; B: a",
	"S: A O c | B O d ; O: b | ; A: a ; B: a",
	"S: L ; L: L I | I ; I: A x y | B x z ; A: a ; B: a",
	"S: A b | B b c ; A: a ; B: a",
	"S: A b c d | B b c e ; A: a ; B: a",
	"S: A T c | B T d ; T: b b ; A: a ; B: a",
	"S: A T | B U ; T: b c ; U: b d ; A: a ; B: a",
	"S: P | Q ; P: A b P c | A b c ; Q: B b Q d | B b d ; A: a ; B: a",
	"S: L e ; L: L s I | I ; I: A b c | B b d | A ; A: a ; B: a",
	"S: A X | B Y ; X: M c ; Y: M d ; M: b ; A: a ; B: a",
	"S: A b C | B b D ; C: c | ; D: d | d d ; A: a ; B: a",
	"S: x A b c | x B b d | y A b d | y B b c ; A: a ; B: a",
	"S: A b b b c | B b b b d ; A: a ; B: a",
	"S: E ; E: A p E | B p q | a ; A: a ; B: a",
	// two conflict states with different cores that look alike up to their nested lookahead tables
	"S: p A a b | p B a c | q A a c | q C a b ; A: e ; B: e ; C: e",
	"S: p A a b | p B a c | q B a b | q A a c ; A: e ; B: e",
	"S: p X | q Y ; X: A a b | B a c ; Y: A a c | C a b ; A: e ; B: e ; C: e",
}

func c07Gen(t *rapid.T) c07Case {
	var g gSpec
	o := gDefaultOpts
	o.MaxT = 7
	if rapid.IntRange(0, 9).Draw(t, "fam") < 8 {
		g = parseFamily(c07Families[rapid.IntRange(0, len(c07Families)-1).Draw(t, "family")])
		nm := rapid.IntRange(0, 3).Draw(t, "mut")
		for i := 0; i < nm; i++ {
			mutateGSpec(t, &g, o)
		}
		if rapid.IntRange(0, 4).Draw(t, "noeoi") == 0 {
			g.Inputs[0].Eoi = false
		}
		if rapid.IntRange(0, 4).Draw(t, "second") == 0 && g.N > 1 {
			nt := rapid.IntRange(g.T+1, g.T+g.N-1).Draw(t, "secondNT")
			g.Inputs = append(g.Inputs, gInput{NT: nt, Eoi: rapid.Bool().Draw(t, "secondEoi")})
		}
	} else {
		g = genGSpec(t, o)
	}
	return c07Case{G: g, K: rapid.IntRange(2, 8).Draw(t, "k"), Seed: rapid.IntRange(0, 1<<30).Draw(t, "seed")}
}

func c07Check(c c07Case, r *ev.Recorder) *Failure {
	g := c.G
	if !g.valid() || len(g.Prec) != 0 || c.K < 2 || c.K > 8 {
		return nil
	}
	lg := g.toLalr()
	t, err := lalr.Compile(lg, lalr.Options{Lookahead: c.K})
	if err != nil {
		r.Excluded("not-resolved-or-conflicts")
		return nil
	}
	if t.UsedLADepth == 0 {
		r.Excluded("already-lalr1")
		return nil
	}
	r.Class(fmt.Sprintf("resolved-at-depth-%d", t.UsedLADepth))
	tmin, err := lalr.Compile(lg, lalr.Options{Lookahead: c.K, MinimizeDFA: true})
	if err != nil {
		return failf("minimized-compile-fails", "lalr(%d) compiles, with minimizeDFA it reports %v; grammar: %s", c.K, err, g.String())
	}
	if tmin.NumStates < t.NumStates {
		r.Class("minimizeDFA-merged-states")
	}
	cfg := g.toCFG()
	deepVisited := 0
	for ii, inp := range g.Inputs {
		rec := oracle.NewRecognizer(cfg, inp.NT)
		reduced := allReachableProductive(cfg, inp.NT, rec.Productive)
		if !reduced {
			r.Excluded("input-with-unproductive-reachable-nonterminal")
			continue
		}
		strs, _ := tokenStrings(cfg, inp.NT, c.Seed, 2500)
		strs = append(strs, c.Extra...)
		for _, toks := range strs {
			ok := true
			for _, tk := range toks {
				if tk < 1 || tk >= g.T {
					ok = false
				}
			}
			if !ok {
				continue
			}
			an := rec.Analyze(toks)
			wantAcc, wantErr := expectOutcome(an, len(toks), inp.Eoi)
			res := tabint.Run(t, tabint.Opts{NumRules: len(lg.Rules)}, ii, toks)
			r.Eval(1)
			where := fmt.Sprintf("input %s%s, tokens [%s], lalr(%d) used depth %d; grammar: %s", g.symName(inp.NT), map[bool]string{true: "", false: " no-eoi"}[inp.Eoi], tokensString(&g, toks), c.K, t.UsedLADepth, g.String())
			if res.Broken != "" && res.Accept != wantAcc {
				return failf("broken-tables", "tables are inconsistent (%s) on %s", res.Broken, where)
			}
			if res.Overrun {
				return failf("parser-does-not-terminate", "parser does not terminate on %s", where)
			}
			if res.Accept != wantAcc {
				return failf(fmt.Sprintf("accept-mismatch:want=%v", wantAcc), "parser accepts=%v but the string is in the language=%v (%s)", res.Accept, wantAcc, where)
			}
			_ = wantErr
			_ = reduced
			if tmin != nil {
				// the same grammar with minimizeDFA: states that consult deeper lookahead may be
				// merged only if their nested lookahead tables agree
				rm := tabint.Run(tmin, tabint.Opts{NumRules: len(lg.Rules)}, ii, toks)
				r.Eval(1)
				if rm.Overrun || rm.Accept != wantAcc {
					return failf(fmt.Sprintf("accept-mismatch-minimized:want=%v", wantAcc), "with minimizeDFA (%d -> %d states) the parser accepts=%v (overrun=%v) but the string is in the language=%v (%s)", t.NumStates, tmin.NumStates, rm.Accept, rm.Overrun, wantAcc, where)
				}
			}
			if res.DeepLA >= 1 {
				deepVisited++
			}
		}
	}
	if deepVisited > 0 {
		js, _ := json.Marshal(c.G)
		r.Nontrivial(string(js) + fmt.Sprint(c.K))
		if r.WantSample() {
			r.Sample(map[string]any{"grammar": g.String(), "k": c.K, "used_depth": t.UsedLADepth})
		}
	}
	return nil
}

func TestC07(t *testing.T) {
	p := &prop[c07Case]{
		ID:   "C07",
		Rule: "80% mutated seeds of 20 LALR(k) families (conflict states with different cores whose deep-lookahead tables differ,reduce/reduce conflicts needing 2..4 tokens: common prefixes of fixed length, conflicts whose second token lies beyond the end of the enclosing rule, nullable middles, lists, eoi as second token, shared tails), 20% random grammars; Lookahead k in 2..8; kept when lalr.Compile reports no error and UsedLADepth>0. For every input, the tables are interpreted (deep-lookahead entries followed on the tokens after the current one, as resolveDeepLA does) on all short strings (<=2500), random sentences, near-misses and random strings and the accept bit is compared with an Earley recogniser; the same for the tables compiled with MinimizeDFA. Non-trivial: a string whose parse consulted at least one extra lookahead token; distinct by (grammar JSON, k).",
		Assume: []string{"Optimize=false: the displacement encoding does not support deep-lookahead entries", "error positions are not compared for LALR(k) (the statement speaks about the accepted language)"},
		Quick: 18000, Thorough: 180000,
		Gen:   c07Gen,
		Check: c07Check,
	}
	p.run(t)
}
