package props

import (
	"encoding/json"
	"fmt"
	"strconv"
	"strings"
	"testing"

	"pgregory.net/rapid"

	"verif/harness/internal/batch"
	"verif/harness/internal/ev"
)

// C29, lookahead family: cancellable generated parsers whose every item is decided by runtime
// lookahead predicates (the shape of the defect found in the hand-written js parse loop: a
// lookahead interrupted by cancellation must not be taken for "false").

type c29lCase struct {
	B      c08bCase `json:"b"`
	Seed   int      `json:"seed"`
	Cancel []int    `json:"cancel"`
}

// c29LBound: offsets are exact here (single-character tokens, lexer offset recorded at the
// cancellation), so twice the template's polling interval of 512 shifts is tolerated: a polling
// shift that is stepped over inside a lookahead then shows after two misses in a row.
const c29LBound = 1024

func c29lGen(t *rapid.T) c29lCase {
	c := c29lCase{B: c08bGen(t), Seed: rapid.IntRange(0, 1<<30).Draw(t, "seed")}
	c.B.Cancellable = true
	c.B.Many = true
	for i := 0; i < 6; i++ {
		c.Cancel = append(c.Cancel, rapid.IntRange(1, 30000).Draw(t, "cancelAt"))
	}
	return c
}

func c29lCheck(c c29lCase, res *batch.Result, run runFunc, r *ev.Recorder) *Failure {
	m := c.B.C.M
	// only assignments that satisfy exactly one conjunction are used
	var good []int
	altOf := map[int]int{} // assignment -> the alternative it satisfies
	for asg := 0; asg < 1<<m; asg++ {
		n := 0
		for ai, a := range c.B.C.Alts {
			ok := true
			for _, p := range a.Preds {
				ok = ok && (asg&(1<<p.In) != 0) != p.Neg
			}
			if ok {
				n++
				altOf[asg] = ai
			}
		}
		if n == 1 {
			good = append(good, asg)
		}
	}
	if len(good) == 0 {
		r.Excluded("no-decidable-assignment")
		return nil
	}
	sawCtx, sawDone := false, false
	// random inputs, and regular ones repeating 1, 2 or 3 items: with a regular input the shifts
	// at which the context is polled can all fall into the same part of an item
	for _, in := range [][2]int{{8, 0}, {900, 0}, {2500, 0}, {2500, 1}, {2501, 2}, {2502, 3}} {
		items := in[0]
		rnd := &lcg{uint64(c.Seed) + uint64(items)}
		pattern := make([]int, in[1])
		for i := range pattern {
			pattern[i] = good[rnd.next(len(good))]
		}
		var sb strings.Builder
		for i := 0; i < items; i++ {
			asg := good[rnd.next(len(good))]
			if len(pattern) > 0 {
				asg = pattern[i%len(pattern)]
			}
			sb.WriteString(c.B.lead(altOf[asg]))
			for j := 0; j < m; j++ {
				if asg&(1<<j) != 0 {
					sb.WriteByte('T')
				} else {
					sb.WriteByte('F')
				}
			}
			sb.WriteString(";" + c.B.tail(altOf[asg]))
		}
		src := sb.String()
		short := fmt.Sprintf("input of %d items (%d tokens); grammar:\n%s", items, len(src), c.B.render("g"))
		base, pan, err := c19Run(run, 0, src, "-1")
		r.Eval(1)
		if err != nil || pan != "" {
			return failf("parser-panics-or-hangs", "%v %s on %s", err, oneLine(pan, 300), short)
		}
		bf := strings.Split(base, "|")
		if len(bf) != 5 || bf[1] != "ok" {
			return failf("sentence-rejected", "the uncancelled parse answers %q on %s", base, short)
		}
		nEvents, _ := strconv.Atoi(strings.SplitN(bf[0], ":", 2)[0])
		for _, k0 := range append([]int{0, 1}, c.Cancel...) {
			k := k0
			if k > 1 && nEvents > 0 {
				k = 1 + (k0-1)%nEvents
			}
			out, pan, err := c19Run(run, 0, src, strconv.Itoa(k))
			r.Eval(1)
			if err != nil || pan != "" {
				return failf("parser-panics-or-hangs", "%v %s when cancelling at event %d on %s", err, oneLine(pan, 300), k, short)
			}
			f := strings.Split(out, "|")
			if len(f) != 5 {
				return failf("adapter-output", "bad adapter output %q", out)
			}
			at, _ := strconv.Atoi(f[2])
			end, _ := strconv.Atoi(f[3])
			if f[1] == "ctx" {
				sawCtx = true
				if end-at > c29LBound+2 {
					return failf("late-stop", "cancelled at event %d (lexer offset %d) the parser consumed %d more tokens before returning the context error (bound %d); %s", k, at, end-at, c29LBound, short)
				}
				continue
			}
			if f[0] != bf[0] || f[1] != bf[1] {
				return failf("wrong-parse", "cancelled at event %d the parse returns %q with events (count:hash) %s; uncancelled it returns %q with %s; %s", k, f[1], f[0], bf[1], bf[0], short)
			}
			sawDone = true
			if at >= 0 && end-at > c29LBound+2 {
				return failf("cancellation-ignored", "cancelled at event %d (lexer offset %d) with %d tokens left, the parse ran to completion (bound %d); %s", k, at, end-at, c29LBound, short)
			}
		}
	}
	if sawCtx && sawDone {
		js, _ := json.Marshal(c)
		r.Nontrivial(string(js))
		r.Class("lookahead-family:both-outcomes")
	}
	return nil
}

func TestC29L(t *testing.T) {
	p := &batchProp[c29lCase]{
		ID:        "C29",
		Rule:      "generated parsers, lookahead family: `File: Item+` where every Item is chosen by runtime lookahead predicates (the C08 tier-B grammars: ordered decision trees of `(?= P0 & !P1)` alternatives, recursiveLookaheads and optimizeTables on/off) with cancellable = true; random inputs of 8, 900 and 2500 items and regular ones of ~2500 items repeating 1, 2 or 3 items; eight cancellation points per input as in TestC29. Same checks: context error or exactly the uncancelled result and events; bounded consumption after cancellation (single-character tokens, so offsets count tokens).",
		Quick:     32, Thorough: 480, BatchSize: 32,
		Gen:       c29lGen,
		Unit: func(c c29lCase, name string) (batch.Unit, bool) {
			return batch.Unit{Name: name, TM: c.B.render(name), Adapter: cancelAdapter}, true
		},
		Check: c29lCheck,
	}
	p.run(t)
}
