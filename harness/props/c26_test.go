package props

import (
	"fmt"
	"sort"
	"testing"

	"github.com/inspirer/textmapper/util/container"
	"github.com/inspirer/textmapper/util/graph"
	"pgregory.net/rapid"

	"verif/harness/internal/ev"
)

// C26 — graph algorithms (Tarjan SCC, Warshall closure, transpose, longest path).
// Oracle: reachability by Floyd–Warshall on a bool matrix written here; SCC = mutual
// reachability; longest path by memoised DFS over the (acyclic) graph.

type c26Case struct {
	N   int     `json:"n"`
	Adj [][]int `json:"adj"`
}

func c26Gen(t *rapid.T) c26Case {
	n := rapid.IntRange(1, 40).Draw(t, "n")
	if rapid.IntRange(0, 3).Draw(t, "small") > 0 {
		n = rapid.IntRange(1, 9).Draw(t, "nsmall")
	}
	// density classes: sparse DAG-ish, sparse, dense
	mode := rapid.IntRange(0, 3).Draw(t, "mode")
	c := c26Case{N: n, Adj: make([][]int, n)}
	for i := 0; i < n; i++ {
		maxdeg := 3
		if mode == 3 {
			maxdeg = n
		}
		d := rapid.IntRange(0, maxdeg).Draw(t, "deg")
		for j := 0; j < d; j++ {
			var to int
			if mode == 0 && i+1 < n {
				to = rapid.IntRange(i+1, n-1).Draw(t, "fwd") // forward edges only: acyclic
			} else if mode == 0 {
				continue
			} else {
				to = rapid.IntRange(0, n-1).Draw(t, "to")
			}
			c.Adj[i] = append(c.Adj[i], to)
		}
	}
	return c
}

func c26Reach(c c26Case) [][]bool {
	n := c.N
	r := make([][]bool, n)
	for i := range r {
		r[i] = make([]bool, n)
		for _, e := range c.Adj[i] {
			r[i][e] = true
		}
	}
	for k := 0; k < n; k++ {
		for i := 0; i < n; i++ {
			if !r[i][k] {
				continue
			}
			for j := 0; j < n; j++ {
				if r[k][j] {
					r[i][j] = true
				}
			}
		}
	}
	return r
}

func c26Check(c c26Case, r *ev.Recorder) *Failure {
	n := c.N
	if len(c.Adj) != n {
		return nil
	}
	reach := c26Reach(c)
	cyclic := false
	for i := 0; i < n; i++ {
		if reach[i][i] {
			cyclic = true
		}
	}
	clone := func() [][]int {
		g := make([][]int, n)
		for i := range g {
			g[i] = append([]int(nil), c.Adj[i]...)
		}
		return g
	}
	desc := func() string { return fmt.Sprintf("graph %v", c.Adj) }

	// --- Tarjan (statement: at least two vertices)
	if n >= 2 {
		var comps [][]int
		graph.Tarjan(clone(), func(vs []int, _ container.BitSet) {
			comps = append(comps, append([]int(nil), vs...))
		})
		r.Eval(1)
		seen := make([]int, n)
		for i := range seen {
			seen[i] = -1
		}
		for ci, comp := range comps {
			if len(comp) == 0 {
				return failf("tarjan-empty-component", "Tarjan reported an empty component for %s", desc())
			}
			for _, v := range comp {
				if v < 0 || v >= n {
					return failf("tarjan-foreign-vertex", "Tarjan reported vertex %d for %s", v, desc())
				}
				if seen[v] != -1 {
					return failf("tarjan-vertex-twice", "vertex %d reported in two components (%d and %d) for %s", v, seen[v], ci, desc())
				}
				seen[v] = ci
			}
		}
		for v := 0; v < n; v++ {
			if seen[v] == -1 {
				return failf("tarjan-vertex-missing", "vertex %d is in no reported component for %s (components %v)", v, desc(), comps)
			}
		}
		for u := 0; u < n; u++ {
			for v := 0; v < n; v++ {
				if u == v {
					continue
				}
				mutual := reach[u][v] && reach[v][u]
				if mutual != (seen[u] == seen[v]) {
					return failf("tarjan-not-scc", "vertices %d,%d: mutually reachable=%v but same reported component=%v for %s (components %v)", u, v, mutual, seen[u] == seen[v], desc(), comps)
				}
				if !mutual && reach[u][v] && seen[v] > seen[u] {
					return failf("tarjan-order", "component of %d can reach component of %d but was reported first (reverse topological order violated) for %s (components %v)", u, v, desc(), comps)
				}
			}
		}
	}

	// --- Matrix closure
	{
		m := graph.NewMatrix(n)
		for i, es := range c.Adj {
			for _, e := range es {
				m.AddEdge(i, e)
			}
		}
		m.Closure()
		r.Eval(1)
		for i := 0; i < n; i++ {
			for j := 0; j < n; j++ {
				if m.HasEdge(i, j) != reach[i][j] {
					return failf("closure", "Matrix.Closure: HasEdge(%d,%d)=%v but a path of length>=1 exists=%v for %s", i, j, m.HasEdge(i, j), reach[i][j], desc())
				}
			}
		}
	}

	// --- Transpose
	{
		tr := graph.Transpose(clone())
		r.Eval(1)
		if len(tr) != n {
			return failf("transpose-size", "Transpose returned %d vertices for %s", len(tr), desc())
		}
		want := map[[2]int]int{}
		for i, es := range c.Adj {
			for _, e := range es {
				want[[2]int{e, i}]++
			}
		}
		got := map[[2]int]int{}
		for i, es := range tr {
			for _, e := range es {
				got[[2]int{i, e}]++
			}
		}
		if len(got) != len(want) {
			return failf("transpose-edges", "Transpose(%v) = %v: edge multiset differs", c.Adj, tr)
		}
		for k, v := range want {
			if got[k] != v {
				return failf("transpose-edges", "Transpose(%v) = %v: edge %v has multiplicity %d, want %d", c.Adj, tr, k, got[k], v)
			}
		}
	}

	// --- LongestPath
	{
		p := graph.LongestPath(clone())
		r.Eval(1)
		if cyclic != (p == nil) {
			return failf("longestpath-nil-iff-cyclic", "LongestPath = %v but cyclic = %v for %s", p, cyclic, desc())
		}
		if !cyclic {
			memo := make([]int, n)
			var h func(i int) int
			h = func(i int) int {
				if memo[i] != 0 {
					return memo[i]
				}
				best := 1
				for _, e := range c.Adj[i] {
					if v := h(e) + 1; v > best {
						best = v
					}
				}
				memo[i] = best
				return best
			}
			max := 0
			for i := 0; i < n; i++ {
				if v := h(i); v > max {
					max = v
				}
			}
			if len(p) != max {
				return failf("longestpath-length", "LongestPath = %v (%d vertices) but the longest path has %d vertices for %s", p, len(p), max, desc())
			}
			for i := 0; i+1 < len(p); i++ {
				ok := false
				for _, e := range c.Adj[p[i]] {
					if e == p[i+1] {
						ok = true
					}
				}
				if !ok {
					return failf("longestpath-not-a-path", "LongestPath = %v: no edge %d->%d in %s", p, p[i], p[i+1], desc())
				}
			}
		}
	}

	// classification
	ncomp := 0
	if n >= 2 {
		rep := map[int]bool{}
		for u := 0; u < n; u++ {
			root := u
			for v := 0; v < u; v++ {
				if reach[u][v] && reach[v][u] {
					root = v
					break
				}
			}
			rep[root] = true
		}
		ncomp = len(rep)
	}
	edges := 0
	for _, es := range c.Adj {
		edges += len(es)
	}
	switch {
	case n < 2:
		r.Class("single-vertex")
	case !cyclic:
		r.Class("acyclic")
	case ncomp == 1:
		r.Class("one-scc")
	default:
		r.Class("cyclic-multi-scc")
	}
	if n >= 3 && edges >= 2 && ncomp >= 2 {
		key := fmt.Sprint(c.Adj)
		r.Nontrivial(key)
		if r.WantSample() && ncomp < n && n <= 8 {
			r.Sample(c)
		}
	}
	return nil
}

func TestC26(t *testing.T) {
	p := &prop[c26Case]{
		ID:   "C26",
		Rule: "all simple digraphs (incl. self-loops) with 2,3,4 vertices are enumerated exhaustively as adjacency matrices (16+512+65536 graphs); rapid then generates adjacency lists with 1..40 vertices (parallel edges, unsorted lists; forward-only/sparse/dense modes). Each graph is run through Tarjan (n>=2), Matrix.Closure, Transpose and LongestPath and compared with a reachability matrix / mutual-reachability SCCs / DP longest path. Non-trivial: >=3 vertices, >=2 edges and >=2 strongly connected components; distinct by adjacency lists.",
		Assume: []string{"the 0-vertex graph is not generated (the statement's 'nil exactly for cyclic graphs' is undefined for the empty path)"},
		Quick: 20000, Thorough: 300000,
		Gen:   c26Gen,
		Check: c26Check,
		Pre: func(r *ev.Recorder, run func(c c26Case) *Failure) *Failure {
			s, shards := shard()
			cnt := 0
			for n := 2; n <= 4; n++ {
				total := 1 << uint(n*n)
				for m := 0; m < total; m++ {
					if m%shards != s {
						continue
					}
					c := c26Case{N: n, Adj: make([][]int, n)}
					for i := 0; i < n; i++ {
						for j := 0; j < n; j++ {
							if m&(1<<uint(i*n+j)) != 0 {
								c.Adj[i] = append(c.Adj[i], j)
							}
						}
					}
					if f := run(c); f != nil {
						return f
					}
					cnt++
				}
			}
			r.AddExtra("exhaustive_graphs_2_to_4_vertices", int64(cnt))
			r.Exhaustive(true)
			return nil
		},
	}
	p.run(t)
	_ = sort.Ints
}
