package props

import (
	"fmt"

	"pgregory.net/rapid"
)

// c21GenChains draws grammars whose interesting part is the field structure of one node type:
// several references to the node types B, C, D and to the categories X = {B, C}, Y = {C, D}
// next to each other, with equal or different aliases, optional, or as choices carrying the
// same alias — the shapes for which the generated accessors have to walk sibling chains
// (`Child(sel).Next(sel)...`) and to separate overlapping fields.
func c21GenChains(t *rapid.T) c21Case {
	c := c21Case{
		Space:    rapid.Bool().Draw(t, "space"),
		FileNode: rapid.Bool().Draw(t, "filenode"),
		Opt:      rapid.Bool().Draw(t, "optimize"),
		Seed:     rapid.IntRange(0, 1<<30).Draw(t, "seed"),
	}
	if c.Space {
		c.Comments = rapid.Bool().Draw(t, "comments")
	}
	leaf := func(name, node string, term int) *egNT {
		return &egNT{Name: name, Node: node, Alts: []*egAlt{{Parts: []*egPart{{K: "t", Sym: term}}}}}
	}
	g := egSpec{T: 7}
	top := &egNT{Name: "A", Node: "Top"}
	g.NTs = []*egNT{
		top,
		leaf("Bn", "B", 2),
		leaf("Cn", "C", 3),
		leaf("Dn", "D", 4),
		{Name: "Xn", Node: "Cat4", Alts: []*egAlt{{Parts: []*egPart{{K: "n", Sym: 1}}}, {Parts: []*egPart{{K: "n", Sym: 2}}}}},
		{Name: "Yn", Node: "Cat5", Alts: []*egAlt{{Parts: []*egPart{{K: "n", Sym: 2}}}, {Parts: []*egPart{{K: "n", Sym: 3}}}}},
	}
	c.Interfaces = []int{4, 5}
	alias := func() string {
		if rapid.IntRange(0, 3).Draw(t, "aliased") == 0 {
			return ""
		}
		return fmt.Sprintf("f%d", rapid.IntRange(0, 2).Draw(t, "alias"))
	}
	// Overlapping fields are only accepted when the earlier one is required and not a list, so
	// most grammars have one alternative, few optional parts and few lists.
	nAlts := 1
	if rapid.IntRange(0, 3).Draw(t, "nalts") == 0 {
		nAlts = 2
	}
	for a := 0; a < nAlts; a++ {
		alt := &egAlt{Parts: []*egPart{{K: "t", Sym: []int{1, 6}[a]}}}
		if nAlts == 2 && rapid.Bool().Draw(t, "altNode") {
			alt.Node = fmt.Sprintf("N%d", a)
		}
		for n := rapid.IntRange(2, 4).Draw(t, "items"); n > 0; n-- {
			switch rapid.IntRange(0, 9).Draw(t, "item") % 6 {
			case 0, 1, 2: // a single reference
				p := &egPart{K: "n", Sym: rapid.IntRange(1, 5).Draw(t, "target"), Name: alias()}
				if rapid.IntRange(0, 9).Draw(t, "optional") == 0 {
					p = &egPart{K: "opt", Alts: []*egAlt{{Parts: []*egPart{p}}}}
				}
				alt.Parts = append(alt.Parts, p)
			case 3, 4: // a choice whose alternatives carry the same alias
				name := alias()
				r1 := rapid.IntRange(1, 3).Draw(t, "r1")
				r2 := 1 + (r1+rapid.IntRange(0, 1).Draw(t, "r2"))%3
				alt.Parts = append(alt.Parts, &egPart{K: "grp", Alts: []*egAlt{
					{Parts: []*egPart{{K: "n", Sym: r1, Name: name}}},
					{Parts: []*egPart{{K: "n", Sym: r2, Name: name}}},
				}})
			default: // a list of one of the leaves
				alt.Parts = append(alt.Parts, &egPart{K: "list", Plus: rapid.Bool().Draw(t, "plus"), Name: alias(),
					Alts: []*egAlt{{Parts: []*egPart{{K: "n", Sym: rapid.IntRange(1, 3).Draw(t, "elem")}}}}})
			}
			if rapid.IntRange(0, 3).Draw(t, "sep") == 0 {
				alt.Parts = append(alt.Parts, &egPart{K: "t", Sym: 5})
			}
		}
		top.Alts = append(top.Alts, alt)
	}
	g.Inputs = []egInput{{NT: 0, Eoi: true}}
	c.G = g
	return c
}

// c21GenCycles draws grammars with a ring of 2..4 nonterminals that have no node of their own
// (`C: D ('k' -> K) | ('y' -> Y); D: E; E: C ('x' -> X)`): every node reported inside the ring
// becomes a child of the enclosing annotated rule, any number of times, so the fields must be
// lists.
func c21GenCycles(t *rapid.T) c21Case {
	c := c21Case{
		Space:    rapid.Bool().Draw(t, "space"),
		FileNode: rapid.Bool().Draw(t, "filenode"),
		Opt:      rapid.Bool().Draw(t, "optimize"),
		Seed:     rapid.IntRange(0, 1<<30).Draw(t, "seed"),
	}
	n := rapid.IntRange(2, 4).Draw(t, "ring")
	g := egSpec{T: 7}
	// NT 0: the annotated entry; NTs 1..n: the ring
	g.NTs = append(g.NTs, &egNT{Name: "A", Node: "Top", Alts: []*egAlt{{Parts: []*egPart{{K: "t", Sym: 1}, {K: "n", Sym: 1}}}}})
	leafNode := func(term int, node string) *egPart {
		return &egPart{K: "grp", Alts: []*egAlt{{Parts: []*egPart{{K: "t", Sym: term}}, Node: node}}}
	}
	for i := 1; i <= n; i++ {
		next := i%n + 1
		nt := &egNT{Name: string(rune('A' + i))}
		// the recursive alternative: next member, optionally followed by a reported token
		rec := &egAlt{Parts: []*egPart{{K: "n", Sym: next}}}
		if i == 1 || rapid.Bool().Draw(t, "tail") {
			rec.Parts = append(rec.Parts, leafNode(2+i%4, fmt.Sprintf("K%d", i)))
		}
		nt.Alts = append(nt.Alts, rec)
		if i == 1 || rapid.IntRange(0, 2).Draw(t, "base") == 0 {
			nt.Alts = append(nt.Alts, &egAlt{Parts: []*egPart{leafNode(6, "Y")}}) // the way out
		}
		g.NTs = append(g.NTs, nt)
	}
	g.Inputs = []egInput{{NT: 0, Eoi: true}}
	c.G = g
	return c
}
