package props

import (
	"encoding/json"
	"strings"
	"testing"

	"verif/harness/internal/batch"
	"verif/harness/internal/ev"
)

// C17 for lexer-rich and lookahead grammars: the C17 generator's lexers are single letters, so
// the parts of the lexer template that depend on the rule set (backtracking, inlined rule ids,
// class keywords, start conditions, byte mode) and the parser code around runtime lookaheads are
// built here from the C11 and C08 generators. Only "generation succeeds and the package builds".

func c17lOnGenerated[C any](render func(c C) string) func(c C, res *batch.Result, r *ev.Recorder) *Failure {
	return func(c C, res *batch.Result, r *ev.Recorder) *Failure {
		r.Eval(1)
		if res.CompileErr != nil {
			r.Excluded("compiler-rejects")
			return nil
		}
		if res.Crash != "" {
			return failf("generation-crash:"+panicSite(res.Crash), "compile+generate crashed: %s\ngrammar:\n%s", oneLine(res.Crash, 600), render(c))
		}
		if res.GenErr != nil {
			return failf("generation-error:"+firstWords(c17Num.ReplaceAllString(res.GenErr.Error(), "N"), 6), "gen.Generate failed for an accepted grammar: %v\ngrammar:\n%s", res.GenErr, render(c))
		}
		for name, content := range res.Files {
			if strings.HasPrefix(content, "// go fmt failed") {
				first := content[:strings.Index(content, "\n")]
				return failf("gofmt-failed:"+name, "generated file %s is not valid Go (%s)\ngrammar:\n%s", name, first, render(c))
			}
		}
		return nil
	}
}

func TestC17L(t *testing.T) {
	p := &batchProp[c11Case]{
		ID:        "C17",
		Rule:      "lexer grammars of the C11 generator (rule sets that need backtracking or not, one or several rules per token, rule code through start-condition switches, class rules with keywords, patternless terminals, scanBytes / caseInsensitive / tokenLine / tokenColumn / nonBacktracking options, genParser = false): generation must succeed and the generated package must build.",
		Quick:     64, Thorough: 1280, BatchSize: 64,
		Gen:       c11Gen,
		Unit:      c11Unit,
		OnGenerated: c17lOnGenerated(func(c c11Case) string { return c.render("g") }),
		OnNotBuilt: func(c c11Case, res *batch.Result, r *ev.Recorder) *Failure {
			return failf("build-fails:"+c17ErrKey(res.BuildLog), "generated Go lexer package does not build:\n%s\ngrammar:\n%s", res.BuildLog, c.render("g"))
		},
		Check: func(c c11Case, res *batch.Result, run runFunc, r *ev.Recorder) *Failure {
			js, _ := json.Marshal(c)
			r.Nontrivial(string(js))
			r.Class("lexer-grammar-built")
			return nil
		},
	}
	p.run(t)
}

func TestC17P(t *testing.T) {
	p := &batchProp[c08bCase]{
		ID:        "C17",
		Rule:      "parser grammars with runtime lookaheads (the C08 tier-B generator: 2..6 `(?= P & !Q)` alternatives) under every combination of cancellable, recursiveLookaheads and optimizeTables: generation must succeed and the generated package must build.",
		Quick:     48, Thorough: 960, BatchSize: 48,
		Gen:       c08bGen,
		Unit: func(c c08bCase, name string) (batch.Unit, bool) {
			return batch.Unit{Name: name, TM: c.render(name), Adapter: laAdapter}, true
		},
		OnGenerated: c17lOnGenerated(func(c c08bCase) string { return c.render("g") }),
		OnNotBuilt: func(c c08bCase, res *batch.Result, r *ev.Recorder) *Failure {
			return failf("build-fails:"+c17ErrKey(res.BuildLog), "generated Go parser package does not build:\n%s\ngrammar:\n%s", res.BuildLog, c.render("g"))
		},
		Check: func(c c08bCase, res *batch.Result, run runFunc, r *ev.Recorder) *Failure {
			js, _ := json.Marshal(c)
			r.Nontrivial(string(js))
			r.Class("lookahead-grammar-built")
			return nil
		},
	}
	p.run(t)
}
