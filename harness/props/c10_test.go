package props

import (
	"encoding/json"
	"fmt"
	"testing"
	"unicode"

	"github.com/inspirer/textmapper/lex"
	"pgregory.net/rapid"

	"verif/harness/internal/ev"
	"verif/harness/internal/respec"
)

// C10 — regular expressions and character classes denote their documented sets.
// Oracle: internal/respec (per-code-point membership from Go's unicode tables; set-based matcher).

type c10Case struct {
	Kind   string       `json:"kind"` // atom | pattern | malformed
	RE     *respec.Node `json:"re,omitempty"`
	Fold   string       `json:"fold,omitempty"` // "" | global | prefix
	Bytes  bool         `json:"bytes,omitempty"`
	Bad    string       `json:"bad,omitempty"`
	BadWhy string       `json:"bad_why,omitempty"`
	Seed   int          `json:"seed,omitempty"`
	Sweep  bool         `json:"sweep,omitempty"`
}

type c10Bad struct {
	why   string
	pats  []string
	bytes bool
}

var c10Catalogue = []c10Bad{
	{"non-hex-digit-in-x-escape", []string{`\xZZ`, `\x4G`, `\xg1`, `\x{ZZ}`, `\x{4G}`, `\x{}`}, false},
	{"non-hex-digit-in-u-escape", []string{`\uZZZZ`, `\u00GZ`, `\u004Z`, `\U0000ZZZZ`, `\U0001F60X`, `\u{XYZ}`}, false},
	{"too-few-hex-digits", []string{`\x4`, `\u041`, `\U0001F60`, `\x`, `\u`, `\u12`}, false},
	{"code-point-above-10FFFF", []string{`\U00110000`, `\x{110000}`, `\U7fffffff`, `\u{200000}`}, false},
	{"code-point-overflow", []string{`\U80000041`, `\Uffffffff`, `\x{80000000}`, `\x{100000041}`, `\x{ffffffffffffffff41}`}, false},
	{"bad-octal", []string{`\1`, `\12`, `\400`, `\777`, `\18a`, `\09`}, false},
	{"inverted-range", []string{`[z-a]`, `[\x62-\x61]`, `[9-0]`, `[\u0436-\u0416]`}, false},
	{"range-ends-in-class", []string{`[a-\d]`, `[0-\w]`, `[a-\p{L}]`}, false},
	{"unbalanced-paren", []string{`(ab`, `ab)`, `((a)`, `(a))`, `(?i:a`}, false},
	{"unbalanced-bracket", []string{`[ab`, `[a-`, `[^`, `[a\]`, `[a-[b]`}, false},
	{"bad-quantifier", []string{`a{3,1}`, `a{2`, `a{2,`, `a{2,x}`, `a{1,2`, `({2}a)`, `a|{2}b`}, false},
	{"trailing-backslash", []string{`ab\`, `\`, `[a\`}, false},
	{"unknown-unicode-class", []string{`\p{Foo}`, `\p{}`, `\p{Lu`, `\pX`, `\P{NoSuchScript}`, `[\p{Bar}]`}, false},
	{"unknown-escape", []string{`\q`, `\Z`, `\é`, `\i`, `\y`}, false},
	{"bad-group-flags", []string{`(?x)a`, `(?z:a)`, `(?i`}, false},
	{"bad-reference", []string{`{name`, `{}`, `{a b}`, `{-}`}, false},
	{"invalid-utf8", []string{"a\xffb", "\xc3", "[\xff]", "\xed\xa0\x80"}, false},
	{"byte-mode-class-above-ff", []string{`[\u0100]`, `[α]`, `[a-\u0436]`, `[\x{1f600}]`, `\p{Lu}`, `[\p{Greek}]`}, true},
}

func c10Gen(t *rapid.T) c10Case {
	k := rapid.IntRange(0, 9).Draw(t, "kind")
	bytes := rapid.IntRange(0, 3).Draw(t, "bytes") == 0
	fold := ""
	switch rapid.IntRange(0, 5).Draw(t, "fold") {
	case 0, 1:
		fold = "global"
	case 2:
		fold = "prefix"
	}
	o := reGenOpts{Bytes: bytes, FoldCtx: fold != ""}
	seed := rapid.IntRange(0, 1<<30).Draw(t, "seed")
	switch {
	case k < 5:
		n := genAtom(t, o)
		for n.Op == "lit" && rapid.Bool().Draw(t, "preferClass") {
			n = genAtom(t, o)
		}
		if !o.Bytes && rapid.IntRange(0, 5).Draw(t, "wrap") == 0 {
			f := rapid.IntRange(1, 2).Draw(t, "wrapFold")
			if f == 1 {
				oo := o
				oo.FoldCtx = true
				n = genAtom(t, oo)
			}
			n = &respec.Node{Op: "grp", Fold: f, Sub: []*respec.Node{n}}
		}
		return c10Case{Kind: "atom", RE: n, Fold: fold, Bytes: bytes, Seed: seed, Sweep: tier() == "thorough" && rapid.IntRange(0, 29).Draw(t, "sweep") == 0}
	case k < 8:
		return c10Case{Kind: "pattern", RE: genRE(t, o, 0, true), Fold: fold, Bytes: bytes, Seed: seed}
	default:
		cat := c10Catalogue[rapid.IntRange(0, len(c10Catalogue)-1).Draw(t, "cat")]
		p := cat.pats[rapid.IntRange(0, len(cat.pats)-1).Draw(t, "pat")]
		// embed into a valid context when the defect is local
		switch rapid.IntRange(0, 3).Draw(t, "ctx") {
		case 1:
			p = "ab" + p
		case 2:
			p = "x|y" + p
		}
		return c10Case{Kind: "malformed", Bad: p, BadWhy: cat.why, Bytes: cat.bytes || (bytes && cat.why != "invalid-utf8"), Fold: fold}
	}
}

func c10Pattern(c c10Case) (string, lex.CharsetOptions, respec.Env) {
	opts := lex.CharsetOptions{ScanBytes: c.Bytes}
	env := respec.Env{Bytes: c.Bytes}
	text := ""
	if c.RE != nil {
		text = respec.Render(c.RE)
	}
	switch c.Fold {
	case "global":
		opts.Fold = true
		env.Fold = true
	case "prefix":
		text = "(?i)" + text
		env.Fold = true
	}
	return text, opts, env
}

func c10Tables(text string, opts lex.CharsetOptions) (*lex.Tables, error) {
	re, err := lex.ParseRegexp(text, opts)
	if err != nil {
		return nil, err
	}
	rule := &lex.Rule{Pattern: &lex.Pattern{Name: "p", RE: re, Text: text, Origin: srcNode(0)}, StartConditions: []int{0}, Action: 2, Origin: srcNode(0)}
	return lex.Compile([]*lex.Rule{rule}, opts.ScanBytes, true)
}

func encodeSym(r rune, bytes bool) (string, bool) {
	if bytes {
		if r < 0 || r > 0xff {
			return "", false
		}
		return string([]byte{byte(r)}), true
	}
	if r < 0 || r > unicode.MaxRune || (r >= 0xd800 && r <= 0xdfff) {
		return "", false
	}
	return string(r), true
}

func c10Check(c c10Case, r *ev.Recorder) *Failure {
	switch c.Kind {
	case "malformed":
		opts := lex.CharsetOptions{ScanBytes: c.Bytes, Fold: c.Fold == "global"}
		_, err := lex.ParseRegexp(c.Bad, opts)
		r.Eval(1)
		if err == nil {
			return failf("malformed-accepted:"+c.BadWhy, "malformed pattern %q (%s, bytes=%v) is accepted by lex.ParseRegexp", c.Bad, c.BadWhy, c.Bytes)
		}
		pe, ok := err.(lex.ParseError)
		if !ok {
			return failf("malformed-error-type", "pattern %q: error %v is not a lex.ParseError", c.Bad, err)
		}
		if pe.Offset < 0 || pe.Offset > pe.EndOffset || pe.EndOffset > len(c.Bad) {
			return failf("malformed-error-range:"+c.BadWhy, "pattern %q (%d bytes): error %q located at [%d,%d), outside the pattern", c.Bad, len(c.Bad), pe.Msg, pe.Offset, pe.EndOffset)
		}
		r.Class("malformed:" + c.BadWhy)
		r.Nontrivial(c.Bad + fmt.Sprint(c.Bytes))
		return nil
	}
	if c.RE == nil {
		return nil
	}
	text, opts, env := c10Pattern(c)
	tbl, err := c10Tables(text, opts)
	desc := fmt.Sprintf("pattern /%s/ (fold=%q bytes=%v)", text, c.Fold, c.Bytes)
	if err != nil {
		if _, ok := err.(lex.ParseError); ok {
			return failf("wellformed-rejected", "%s is in the documented syntax but lex.ParseRegexp fails: %v", desc, err)
		}
		// lex.Compile errors (e.g. pattern accepts empty text) are outside this property
		r.Excluded("compile-error")
		return nil
	}
	scanMatches := func(s string) (int, int) {
		return tbl.Scan(0, s)
	}
	rnd := &lcg{uint64(c.Seed)}
	switch c.Kind {
	case "atom":
		probes := map[rune]bool{0: true, 9: true, 10: true, 0x7f: true, 0x80: true, 0xff: true, 0x100: true, 0xd7ff: true, 0xe000: true, 0xfffd: true, 0x10ffff: true, 'a': true, 'A': true, 'k': true, 'K': true, 0x212a: true, 's': true, 0x17f: true, 0xb5: true, 0x3bc: true, 0x39c: true, 0x345: true, 0x3c2: true}
		al := map[rune]bool{}
		reAlphabetOf(c.RE, nil, al, 0)
		for x := range al {
			for _, d := range []rune{-1, 0, 1} {
				probes[x+d] = true
			}
			if x >= 0 && x <= unicode.MaxRune {
				for f := unicode.SimpleFold(x); f != x; f = unicode.SimpleFold(f) {
					probes[f] = true
				}
			}
		}
		for _, e := range tbl.SymbolMap {
			probes[e.Start] = true
			probes[e.Start-1] = true
		}
		for i := 0; i < 150; i++ {
			if c.Bytes {
				probes[rune(rnd.next(256))] = true
			} else {
				probes[rune(rnd.next(0x110000))] = true
				probes[rune(rnd.next(0x3000))] = true
			}
		}
		list := sortedRunes(probes)
		if c.Sweep {
			list = list[:0]
			max := rune(0x10ffff)
			if c.Bytes {
				max = 0xff
			}
			for x := rune(0); x <= max; x++ {
				list = append(list, x)
			}
			r.Class("atom:full-sweep")
		}
		members := 0
		for _, x := range list {
			s, ok := encodeSym(x, c.Bytes)
			if !ok {
				continue
			}
			lens, _ := respec.MatchLens(c.RE, env, s)
			want := len(lens) > 0 && lens[len(lens)-1] == len(s)
			size, act := scanMatches(s)
			got := size == len(s) && act == 2
			r.Eval(1)
			if want {
				members++
			}
			if got != want {
				return failf("membership:"+c10AtomKind(c.RE), "%s: code point U+%04X matched=%v, but the documented meaning says %v", desc, x, got, want)
			}
		}
		kind := c10AtomKind(c.RE)
		r.Class("atom:" + kind)
		if c10Features(c) >= 2 {
			js, _ := json.Marshal(c.RE)
			r.Nontrivial(string(js) + c.Fold + fmt.Sprint(c.Bytes))
			if r.WantSample() {
				r.Sample(map[string]any{"pattern": text, "fold": c.Fold, "bytes": c.Bytes, "probed": len(list), "members_among_probes": members})
			}
		}
	case "pattern":
		al := map[rune]bool{}
		reAlphabetOf(c.RE, nil, al, 0)
		alpha := sortedRunes(al)
		var pool []string
		for _, x := range alpha {
			if s, ok := encodeSym(x, c.Bytes); ok {
				pool = append(pool, s)
				if !c.Bytes {
					for f := unicode.SimpleFold(x); f != x; f = unicode.SimpleFold(f) {
						pool = append(pool, string(f))
					}
				}
			} else if c.Bytes && x > 0xff {
				pool = append(pool, string(x)) // utf-8 bytes of a standalone literal
			}
		}
		pool = append(pool, "a", "A", "0", " ", "\n", "é", "\xff", "z")
		matched := 0
		for i := 0; i < 60; i++ {
			n := rnd.next(7)
			s := ""
			for j := 0; j < n; j++ {
				s += pool[rnd.next(len(pool))]
			}
			if i%10 == 9 && len(s) > 0 {
				s = s[:rnd.next(len(s))] // truncated (may split a multi-byte rune)
			}
			lens, _ := respec.MatchLens(c.RE, env, s)
			wantSize, wantAct := 0, 0
			for _, l := range lens {
				if l > 0 {
					wantSize, wantAct = l, 2
				}
			}
			if wantAct == 0 {
				wantSize = respec.ViablePrefix([]*respec.Node{c.RE}, []respec.Env{env}, s, c.Bytes)
			} else {
				matched++
			}
			size, act := scanMatches(s)
			r.Eval(1)
			if size != wantSize || act != wantAct {
				return failf("pattern-match", "%s on input %q: scan returns (size=%d, action=%d), the documented meaning gives (size=%d, action=%d) [action 2 = match, 0 = invalid token]", desc, s, size, act, wantSize, wantAct)
			}
		}
		r.Class("pattern")
		if matched > 0 && matched < 60 {
			js, _ := json.Marshal(c.RE)
			r.Nontrivial(string(js) + c.Fold + fmt.Sprint(c.Bytes))
			if r.WantSample() {
				r.Sample(map[string]any{"pattern": text, "fold": c.Fold, "bytes": c.Bytes, "matched_inputs": matched})
			}
		}
	}
	return nil
}

func c10AtomKind(n *respec.Node) string {
	switch n.Op {
	case "grp":
		return "group:" + c10AtomKind(n.Sub[0])
	case "class":
		k := "class"
		if n.Cls.Neg {
			k += "-negated"
		}
		if len(n.Cls.Minus) > 0 {
			k += "-subtracted"
		}
		for _, it := range n.Cls.Items {
			if it.Minus {
				k += "-minusesc"
				break
			}
		}
		return k
	case "esc":
		if len(n.Name) > 1 {
			return "esc-p"
		}
		return "esc-" + n.Name
	}
	return n.Op
}

func c10Features(c c10Case) int {
	f := 0
	if c.Fold != "" {
		f++
	}
	if c.Bytes {
		f++
	}
	var walk func(n *respec.Node)
	walk = func(n *respec.Node) {
		if n == nil {
			return
		}
		if n.Op == "grp" && n.Fold != 0 {
			f++
		}
		if n.Op == "esc" && len(n.Name) > 1 {
			f++
		}
		if n.Op == "class" {
			if n.Cls.Neg {
				f++
			}
			if len(n.Cls.Minus) > 0 {
				f++
			}
			for _, it := range n.Cls.Items {
				if it.K == "esc" && len(it.Esc) > 1 {
					f++
					break
				}
			}
		}
		for _, s := range n.Sub {
			walk(s)
		}
	}
	walk(c.RE)
	return f
}

func TestC10(t *testing.T) {
	p := &prop[c10Case]{
		ID:   "C10",
		Rule: "50% single atoms (literal with every documented escape form, class with runes/ranges/\\d\\w\\s/\\p{..}/negation/subtraction [..-[..]] and -\\p{..}, standalone \\p{..} \\P{..} \\p{^..} \\pL, '.'), 30% whole patterns (concatenation, alternation, * + ? {n} {n,} {n,m}, (?i:..) (?-i:..) groups), 20% malformed patterns from a catalogue of 18 classes (non-hex digits, too few digits, code points above 10FFFF/overflowing, bad octal, inverted ranges, range ending in a class, unbalanced parens/brackets, bad quantifiers, trailing backslash, unknown \\p names/escapes/flags/references, invalid UTF-8, byte-mode classes above 0xff), each under no/global/(?i) case folding and rune/byte mode. Atoms: the single-rule lex table is scanned on one code point per probe (class boundaries +-1, SymbolMap boundaries, fold orbits, fixed hot spots, 300 random; thorough: 1 in 30 atoms swept over ALL code points) and compared with per-code-point membership computed from Go's unicode tables. Patterns: 60 generated strings each, (size, action) compared with a set-based matcher incl. the invalid-token length. Malformed: must fail with a ParseError located inside the pattern. Non-trivial: atom combining >=2 features (fold, byte mode, negation, subtraction, \\p), pattern with both matching and non-matching inputs, any malformed pattern; distinct by spec JSON.",
		Assume: []string{"\\w and \\W and Unicode properties are not generated in case-insensitive contexts, standalone \\xHH/octal >= 0x80 not in byte mode, a leading quantifier character is a literal (shipped grammars rely on /+/): their meaning is not documented", "surrogate code points cannot be encoded in a Go string and are skipped"},
		Quick: 20000, Thorough: 100000,
		Gen:   c10Gen,
		Check: c10Check,
	}
	p.run(t)
}
