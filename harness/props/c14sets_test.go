package props

import (
	"fmt"
	"sort"

	"pgregory.net/rapid"

	"verif/harness/internal/oracle"
)

// Sets over template instances (C14): `set(first X<+F, ~Y>)` inside a rule stands for one
// terminal of first/any/last of the instance of X selected by the arguments. A set expression
// has no enclosing nonterminal: arguments are literal values, omitted parameters take their
// default, lookahead flags are false.

type c14Set struct {
	id     int    // plain nonterminal standing for the set
	kind   string // any | first | last
	target int    // plain nonterminal of the instance
}

// setNT returns the plain nonterminal of the set part p, creating the instance it refers to.
func (in *c14Inst) setNT(p tPart) int {
	c := in.c
	env := tEnv{}
	explicit := map[int]tArg{}
	for _, a := range p.Args {
		explicit[a.Param] = a
	}
	lit := func(a tArg) bool {
		switch a.Kind {
		case "true":
			return true
		case "lit":
			return a.Lit
		case "false":
			return false
		}
		in.bad = "set-argument-without-value"
		return false
	}
	for _, param := range c.NTs[p.NT].Params {
		if a, ok := explicit[param]; ok {
			env[param] = lit(a)
			continue
		}
		switch c.Params[param].Default {
		case "true":
			env[param] = true
		case "false":
			env[param] = false
		default:
			in.bad = "uninitialized-parameter"
		}
	}
	for q := range c.Params {
		if c.Params[q].LA {
			env[q] = false
			if a, ok := explicit[q]; ok {
				env[q] = lit(a)
			}
		}
	}
	target := in.instance(p.NT, env)
	k := fmt.Sprintf("-1:%s:%d", p.Set, target)
	if id, ok := in.keys[k]; ok {
		return id
	}
	id := in.terms + len(in.keys)
	in.keys[k] = id
	in.sets = append(in.sets, c14Set{id: id, kind: p.Set, target: target})
	return id
}

// resolveSets evaluates all set nonterminals as the least fixpoint of their definitions over
// the instantiated rules (a set nonterminal contributes its own terminals to the sets of the
// nonterminals using it and counts as non-nullable, as in syntax/set.go) and appends their
// rules: one per terminal, or an empty rule for an empty set.
func (in *c14Inst) resolveSets() {
	if len(in.sets) == 0 {
		return
	}
	isSet := map[int]int{}
	for i, s := range in.sets {
		isSet[s.id] = i
	}
	nullable := map[int]bool{}
	for changed := true; changed; {
		changed = false
		for _, r := range in.rules {
			if nullable[r.LHS] {
				continue
			}
			all := true
			for _, s := range r.RHS {
				all = all && nullable[s]
			}
			if all {
				nullable[r.LHS] = true
				changed = true
			}
		}
	}
	val := make([]map[int]bool, len(in.sets))
	for i := range val {
		val[i] = map[int]bool{}
	}
	// sets[kind][nonterminal] -> terminals
	compute := func(kind string) map[int]map[int]bool {
		out := map[int]map[int]bool{}
		get := func(n int) map[int]bool {
			if out[n] == nil {
				out[n] = map[int]bool{}
			}
			return out[n]
		}
		for changed := true; changed; {
			changed = false
			add := func(dst map[int]bool, sym int) {
				switch {
				case sym < in.terms:
					if !dst[sym] {
						dst[sym] = true
						changed = true
					}
				default:
					src := get(sym)
					if si, ok := isSet[sym]; ok {
						src = val[si]
					}
					for t := range src {
						if !dst[t] {
							dst[t] = true
							changed = true
						}
					}
				}
			}
			for _, r := range in.rules {
				dst := get(r.LHS)
				switch kind {
				case "any":
					for _, s := range r.RHS {
						add(dst, s)
					}
				case "first":
					for _, s := range r.RHS {
						add(dst, s)
						if !nullable[s] {
							break
						}
					}
				case "last":
					for i := len(r.RHS) - 1; i >= 0; i-- {
						add(dst, r.RHS[i])
						if !nullable[r.RHS[i]] {
							break
						}
					}
				}
			}
		}
		return out
	}
	for changed := true; changed; {
		changed = false
		byKind := map[string]map[int]map[int]bool{}
		for i, s := range in.sets {
			if byKind[s.kind] == nil {
				byKind[s.kind] = compute(s.kind)
			}
			for t := range byKind[s.kind][s.target] {
				if !val[i][t] {
					val[i][t] = true
					changed = true
				}
			}
		}
	}
	for i, s := range in.sets {
		if len(val[i]) == 0 {
			in.rules = append(in.rules, oracle.CFGRule{LHS: s.id})
			continue
		}
		for t := 0; t < in.terms; t++ {
			if val[i][t] {
				in.rules = append(in.rules, oracle.CFGRule{LHS: s.id, RHS: []int{t}})
			}
		}
	}
}

// c14Gen2 is c14GenBase plus, in a third of the cases, 1..3 set parts behind the first part of
// some alternatives; half of them come in pairs referring to the same nonterminal with
// independently drawn arguments.
func c14Gen2(t *rapid.T) c14Case {
	c := c14GenBase(t)
	hasLA := false
	for _, p := range c.Params {
		hasLA = hasLA || p.LA
	}
	// explicit empty alternatives (lookahead flags cannot pass through nullable nonterminals, so
	// only in grammars without them)
	if !hasLA && len(c.NTs) > 1 && rapid.IntRange(0, 2).Draw(t, "emptyAlts") == 0 {
		for n := rapid.IntRange(1, 2).Draw(t, "nEmpty"); n > 0; n-- {
			nt := &c.NTs[rapid.IntRange(1, len(c.NTs)-1).Draw(t, "emptyIn")]
			nt.Alts = append(nt.Alts, tAlt{})
		}
	}
	// lookahead predicates over templated nonterminals at the start of 1..2 alternatives; every
	// parameter the caller or a default can supply is omitted, so that the enclosing context decides
	if !hasLA && len(c.NTs) > 2 && rapid.IntRange(0, 2).Draw(t, "predicates") == 0 {
		for n := rapid.IntRange(1, 2).Draw(t, "nPredicates"); n > 0; n-- {
			ci := rapid.IntRange(1, len(c.NTs)-1).Draw(t, "predIn")
			caller := &c.NTs[ci]
			a := &caller.Alts[rapid.IntRange(0, len(caller.Alts)-1).Draw(t, "predAlt")]
			if len(a.Parts) == 0 || a.Parts[0].LA != 0 {
				continue
			}
			target := rapid.IntRange(1, len(c.NTs)-1).Draw(t, "predTarget")
			p := tPart{NT: target, LA: 1 + rapid.IntRange(0, 1).Draw(t, "predNeg")}
			for _, q := range c.NTs[target].Params {
				callerHas := false
				for _, cq := range caller.Params {
					callerHas = callerHas || c.Params[cq].Name == c.Params[q].Name
				}
				if callerHas || c.Params[q].Default != "" {
					continue
				}
				p.Args = append(p.Args, tArg{Param: q, Kind: "lit", Lit: rapid.Bool().Draw(t, "predLit")})
			}
			a.Parts = append([]tPart{p}, a.Parts...)
		}
	}
	if rapid.IntRange(0, 2).Draw(t, "withSets") != 0 {
		// (sets are evaluated over the rules reachable from an input with end-of-input: the two
		// features are kept apart)
		if rapid.IntRange(0, 2).Draw(t, "noeoi") == 0 {
			c.NoEoi = []bool{true}
		}
		return c
	}
	draw := func(target int) tPart {
		p := tPart{NT: target, Set: []string{"any", "first", "first", "last"}[rapid.IntRange(0, 3).Draw(t, "setKind")]}
		for _, q := range c.NTs[target].Params {
			if c.Params[q].Default != "" && rapid.IntRange(0, 2).Draw(t, "setArgOmitted") == 0 {
				continue
			}
			p.Args = append(p.Args, tArg{Param: q, Kind: []string{"true", "false", "lit"}[rapid.IntRange(0, 2).Draw(t, "setArgKind")], Lit: rapid.Bool().Draw(t, "setArgLit")})
		}
		return p
	}
	place := func(p tPart) {
		nt := &c.NTs[rapid.IntRange(0, len(c.NTs)-1).Draw(t, "setInNT")]
		a := &nt.Alts[rapid.IntRange(0, len(nt.Alts)-1).Draw(t, "setInAlt")]
		pos := 0
		if len(a.Parts) > 0 {
			pos = rapid.IntRange(1, len(a.Parts)).Draw(t, "setAt")
		}
		a.Parts = append(a.Parts[:pos:pos], append([]tPart{p}, a.Parts[pos:]...)...)
	}
	for n := rapid.IntRange(1, 2).Draw(t, "nsets"); n > 0; n-- {
		target := rapid.IntRange(1, len(c.NTs)-1).Draw(t, "setTarget")
		place(draw(target))
		if rapid.Bool().Draw(t, "setPair") {
			place(draw(target))
		}
	}
	return c
}

func sortedKeys(m map[string]bool) []string {
	out := make([]string, 0, len(m))
	for k := range m {
		out = append(out, k)
	}
	sort.Strings(out)
	return out
}
