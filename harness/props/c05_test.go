package props

import (
	"encoding/json"
	"fmt"
	"sort"
	"testing"

	"github.com/inspirer/textmapper/lalr"
	"pgregory.net/rapid"

	"verif/harness/internal/ev"
	"verif/harness/internal/tabint"
)

// C05 — compressed (displacement) tables decode to the same actions as the default encoding.
// Oracle: the uncompressed lalr.DefaultEnc read through its documented semantics. Every state x
// every symbol is compared, so each table is checked exhaustively; the search is over tables.

type c05Synth struct {
	States int     `json:"states"`
	Terms  int     `json:"terms"`
	Nts    int     `json:"nts"`
	Rules  int     `json:"rules"`
	Action []int   `json:"action"` // per state: >=0 rule, -1 shift, -2 error, -3 lalr
	Cells  [][]int `json:"cells"`  // per state: flattened (term, action) pairs; action -1 shift to Shift[..], -2 error, >=0 rule
	Shifts [][]int `json:"shifts"` // per state: flattened (symbol, target)
}

type c05Case struct {
	Kind   string    `json:"kind"` // "grammar" | "synthetic"
	G      gSpec     `json:"g,omitempty"`
	Min    bool      `json:"minimize,omitempty"`
	DefRed bool      `json:"default_reduce"`
	S      *c05Synth `json:"synth,omitempty"`
}

// genPrecGSpec draws a grammar with precedence declarations (also used by C04/C06).
func genPrecGSpec(t *rapid.T, precPercent int) gSpec {
	var g gSpec
	if rapid.IntRange(0, 99).Draw(t, "ambig") < 50 {
		g = parseFamily(gAmbiguousFamilies[rapid.IntRange(0, len(gAmbiguousFamilies)-1).Draw(t, "afamily")])
		nm := rapid.IntRange(0, 2).Draw(t, "amut")
		for i := 0; i < nm; i++ {
			mutateGSpec(t, &g, gDefaultOpts)
		}
		if rapid.IntRange(0, 4).Draw(t, "anoeoi") == 0 {
			g.Inputs[0].Eoi = false
		}
	} else {
		g = genGSpec(t, gDefaultOpts)
	}
	if rapid.IntRange(0, 99).Draw(t, "withPrec") < precPercent {
		genPrec(t, &g, 25)
	}
	return g
}

func c05Gen(t *rapid.T) c05Case {
	if rapid.IntRange(0, 9).Draw(t, "kind") < 7 {
		return c05Case{Kind: "grammar", G: genPrecGSpec(t, 60), Min: rapid.Bool().Draw(t, "min"), DefRed: rapid.Bool().Draw(t, "defred")}
	}
	// synthetic sparse table
	s := &c05Synth{}
	big := rapid.IntRange(0, 3).Draw(t, "big") == 0
	if big {
		s.States = rapid.IntRange(40, 400).Draw(t, "states")
		s.Terms = rapid.IntRange(5, 60).Draw(t, "terms")
		s.Nts = rapid.IntRange(2, 30).Draw(t, "nts")
	} else {
		s.States = rapid.IntRange(2, 40).Draw(t, "states")
		s.Terms = rapid.IntRange(2, 12).Draw(t, "terms")
		s.Nts = rapid.IntRange(1, 8).Draw(t, "nts")
	}
	s.Rules = rapid.IntRange(1, 40).Draw(t, "rules")
	// Every LR state is entered by exactly one symbol: draw it per state and only create
	// transitions into states with the matching accessing symbol.
	bySymbol := map[int][]int{}
	for st := 1; st < s.States; st++ {
		sym := rapid.IntRange(0, s.Terms+s.Nts-1).Draw(t, "accessing")
		bySymbol[sym] = append(bySymbol[sym], st)
	}
	target := func(sym int, label string) (int, bool) {
		c := bySymbol[sym]
		if len(c) == 0 {
			return 0, false
		}
		return c[rapid.IntRange(0, len(c)-1).Draw(t, label)], true
	}
	// a few "templates" so that identical lines occur (exercises line dedup)
	type tmpl struct {
		action int
		cells  []int
		shifts []int
	}
	mk := func() tmpl {
		var tp tmpl
		switch rapid.IntRange(0, 9).Draw(t, "stkind") {
		case 0, 1:
			tp.action = rapid.IntRange(0, s.Rules-1).Draw(t, "lr0rule")
		case 2:
			tp.action = -2
		case 3, 4:
			tp.action = -1
			n := rapid.IntRange(1, min(6, s.Terms)).Draw(t, "nshift")
			seen := map[int]bool{}
			for i := 0; i < n; i++ {
				term := rapid.IntRange(0, s.Terms-1).Draw(t, "sterm")
				if tgt, ok := target(term, "starget"); ok && !seen[term] {
					seen[term] = true
					tp.shifts = append(tp.shifts, term, tgt)
				}
			}
		default:
			tp.action = -3
			n := rapid.IntRange(1, min(10, s.Terms)).Draw(t, "ncells")
			seen := map[int]bool{}
			for i := 0; i < n; i++ {
				term := rapid.IntRange(0, s.Terms-1).Draw(t, "cterm")
				if seen[term] {
					continue
				}
				seen[term] = true
				a := rapid.IntRange(-2, s.Rules-1).Draw(t, "caction")
				if rapid.IntRange(0, 2).Draw(t, "favour") == 0 {
					a = rapid.IntRange(0, min(2, s.Rules-1)).Draw(t, "commonRule")
				}
				if a == -1 {
					tgt, ok := target(term, "ctarget")
					if !ok {
						continue
					}
					tp.shifts = append(tp.shifts, term, tgt)
				}
				tp.cells = append(tp.cells, term, a)
			}
		}
		// nonterminal gotos
		ng := rapid.IntRange(0, min(4, s.Nts)).Draw(t, "ngoto")
		seenNt := map[int]bool{}
		for i := 0; i < ng; i++ {
			nt := s.Terms + rapid.IntRange(0, s.Nts-1).Draw(t, "gnt")
			if !seenNt[nt] {
				seenNt[nt] = true
				tgt, ok := target(nt, "gtarget")
				if !ok {
					continue
				}
				if rapid.IntRange(0, 2).Draw(t, "commonTarget") == 0 {
					tgt = bySymbol[nt][0] // many states share the goto target => default goto
				}
				tp.shifts = append(tp.shifts, nt, tgt)
			}
		}
		return tp
	}
	ntempl := rapid.IntRange(1, 12).Draw(t, "ntempl")
	templs := make([]tmpl, ntempl)
	for i := range templs {
		templs[i] = mk()
	}
	for st := 0; st < s.States; st++ {
		var tp tmpl
		if rapid.IntRange(0, 2).Draw(t, "useTempl") == 0 {
			tp = templs[rapid.IntRange(0, ntempl-1).Draw(t, "templ")]
		} else {
			tp = mk()
		}
		s.Action = append(s.Action, tp.action)
		s.Cells = append(s.Cells, tp.cells)
		s.Shifts = append(s.Shifts, tp.shifts)
	}
	return c05Case{Kind: "synthetic", S: s, DefRed: rapid.Bool().Draw(t, "defred")}
}

func (s *c05Synth) build() (*lalr.DefaultEnc, bool) {
	syms := s.Terms + s.Nts
	if s.States < 1 || s.Terms < 1 || s.Nts < 1 || s.Rules < 1 || len(s.Action) != s.States || len(s.Cells) != s.States || len(s.Shifts) != s.States {
		return nil, false
	}
	enc := &lalr.DefaultEnc{Action: make([]int, s.States)}
	type ft struct{ from, to int }
	bySym := make([][]ft, syms)
	for st := 0; st < s.States; st++ {
		sh := s.Shifts[st]
		for i := 0; i+1 < len(sh); i += 2 {
			if sh[i] < 0 || sh[i] >= syms || sh[i+1] < 0 || sh[i+1] >= s.States {
				return nil, false
			}
			bySym[sh[i]] = append(bySym[sh[i]], ft{st, sh[i+1]})
		}
	}
	for st := 0; st < s.States; st++ {
		a := s.Action[st]
		switch {
		case a >= 0:
			if a >= s.Rules {
				return nil, false
			}
			enc.Action[st] = a
		case a == -1, a == -2:
			enc.Action[st] = a
		default:
			enc.Action[st] = -3 - len(enc.Lalr)
			cells := s.Cells[st]
			for i := 0; i+1 < len(cells); i += 2 {
				term, act := cells[i], cells[i+1]
				if term < 0 || term >= s.Terms || act < -2 || act >= s.Rules {
					return nil, false
				}
				if act == -1 {
					found := false
					for _, e := range bySym[term] {
						if e.from == st {
							found = true
						}
					}
					if !found {
						return nil, false
					}
				}
				enc.Lalr = append(enc.Lalr, term, act)
			}
			enc.Lalr = append(enc.Lalr, -1, -2)
		}
	}
	for sym := 0; sym < syms; sym++ {
		enc.Goto = append(enc.Goto, len(enc.FromTo))
		list := bySym[sym]
		sort.SliceStable(list, func(i, j int) bool { return list[i].from < list[j].from })
		prev := -1
		for _, e := range list {
			if e.from == prev {
				continue
			}
			prev = e.from
			enc.FromTo = append(enc.FromTo, e.from, e.to)
		}
	}
	enc.Goto = append(enc.Goto, len(enc.FromTo))
	return enc, true
}

// defaultCell decodes the default encoding: kind 's' shift(target), 'r' reduce(rule),
// 'e' plain error, 'n' explicit (non-assoc) error.
func defaultCell(enc *lalr.DefaultEnc, state, term int) (kind byte, val int) {
	a := enc.Action[state]
	switch {
	case a >= 0:
		return 'r', a
	case a == -1:
		if to := tabint.GotoDefault(enc, state, term); to >= 0 {
			return 's', to
		}
		return 'e', 0
	case a == -2:
		return 'e', 0
	}
	for i := -a - 3; enc.Lalr[i] >= 0; i += 2 {
		if enc.Lalr[i] == term {
			switch v := enc.Lalr[i+1]; {
			case v == -1:
				return 's', tabint.GotoDefault(enc, state, term)
			case v == -2:
				return 'n', 0
			case v >= 0:
				return 'r', v
			default:
				return 'd', v // deep lookahead (outside the domain)
			}
		}
	}
	return 'e', 0
}

func compareEncodings(enc *lalr.DefaultEnc, opt *lalr.DisplacementEnc, terms, rules int, defRed bool, r *ev.Recorder, desc string) *Failure {
	states := len(enc.Action)
	syms := len(enc.Goto) - 1
	for st := 0; st < states; st++ {
		// most frequent reductions of the state (for defaultReduce)
		var freq map[int]int
		maxFreq := 0
		if defRed && enc.Action[st] < -2 {
			freq = map[int]int{}
			for i := -enc.Action[st] - 3; enc.Lalr[i] >= 0; i += 2 {
				if v := enc.Lalr[i+1]; v >= 0 {
					freq[v]++
					if freq[v] > maxFreq {
						maxFreq = freq[v]
					}
				}
			}
		}
		for term := 0; term < terms; term++ {
			kind, val := defaultCell(enc, st, term)
			got := tabint.ActionOptimized(opt, st, term)
			r.Eval(1)
			where := fmt.Sprintf("state %d, terminal %d (defaultReduce=%v): default encoding says %c %d, displacement encoding decodes to %d; %s", st, term, defRed, kind, val, got, desc)
			switch kind {
			case 's':
				if got != -2-val {
					return failf("decode-shift", "shift differs: %s", where)
				}
			case 'r':
				if got != val {
					return failf("decode-reduce", "reduction differs: %s", where)
				}
			case 'n':
				if got != -1 {
					return failf("decode-nonassoc-error", "an error caused by %%nonassoc does not stay an error: %s", where)
				}
			case 'e':
				if got == -1 {
					break
				}
				if got < -1 {
					return failf("decode-error-becomes-shift", "a syntax error became a shift: %s", where)
				}
				if !(defRed && enc.Action[st] < -2 && freq[got] == maxFreq && maxFreq > 0) {
					return failf("decode-error-becomes-reduce", "a syntax error became a reduction that is not the state's most frequent one (defaultReduce=%v): %s", defRed, where)
				}
			}
			// GotoOptimized on terminals (used by recovery and lookahead code) must agree with shifts.
			gt := tabint.GotoOptimized(opt, terms, st, term)
			wantGt := -1
			if kind == 's' {
				wantGt = val
			}
			if gt != wantGt {
				return failf("decode-goto-terminal", "gotoState(%d, terminal %d) = %d in the displacement encoding, %d in the default encoding; %s", st, term, gt, wantGt, desc)
			}
		}
		for nt := terms; nt < syms; nt++ {
			want := tabint.GotoDefault(enc, st, nt)
			if want < 0 {
				continue
			}
			r.Eval(1)
			if got := tabint.GotoOptimized(opt, terms, st, nt); got != want {
				return failf("decode-goto", "goto(state %d, nonterminal %d) = %d in the displacement encoding, %d in the default encoding; %s", st, nt, got, want, desc)
			}
		}
	}
	return nil
}

// interleaved reports whether two table lines overlap in the packed table or share a base.
func interleaved(opt *lalr.DisplacementEnc, terms int) bool {
	type span struct{ lo, hi int }
	var spans []span
	seenBase := map[int]bool{}
	dedup := false
	add := func(base, n int, isAction bool) {
		if isAction && base == opt.Base {
			return
		}
		lo, hi := -1, -1
		for j := 0; j < n; j++ {
			pos := base + j
			if pos >= 0 && pos < len(opt.Table) && opt.Check[pos] == j {
				if lo == -1 {
					lo = pos
				}
				hi = pos
			}
		}
		if lo == -1 {
			return
		}
		if seenBase[base] {
			dedup = true
			return
		}
		seenBase[base] = true
		spans = append(spans, span{lo, hi})
	}
	for _, a := range opt.Action {
		add(a, terms, true)
	}
	for _, g := range opt.Goto {
		add(g, len(opt.Action), false)
	}
	sort.Slice(spans, func(i, j int) bool { return spans[i].lo < spans[j].lo })
	for i := 1; i < len(spans); i++ {
		if spans[i].lo <= spans[i-1].hi {
			return true
		}
	}
	return dedup
}

func c05Check(c c05Case, r *ev.Recorder) *Failure {
	switch c.Kind {
	case "grammar":
		g := c.G
		if !g.valid() {
			return nil
		}
		lg := g.toLalr()
		t, _ := lalr.Compile(lg, lalr.Options{MinimizeDFA: c.Min}) // conflicts do not matter here
		hasNonassoc := false
		for i := 1; i < len(t.Lalr); i += 2 {
			if t.Lalr[i] == -2 && t.Lalr[i-1] >= 0 {
				hasNonassoc = true
			}
		}
		opt := lalr.Optimize(t.DefaultEnc, g.T, len(t.RuleLen), c.DefRed)
		if f := compareEncodings(t.DefaultEnc, opt, g.T, len(t.RuleLen), c.DefRed, r, "grammar: "+g.String()); f != nil {
			return f
		}
		r.Class("grammar-tables")
		if hasNonassoc {
			r.Class("grammar-tables:with-nonassoc-error-cells")
		}
		if interleaved(opt, g.T) {
			js, _ := json.Marshal(c)
			r.Nontrivial(string(js))
			if r.WantSample() {
				r.Sample(map[string]any{"grammar": g.String(), "defaultReduce": c.DefRed, "states": t.NumStates, "table_len": len(opt.Table)})
			}
		}
	case "synthetic":
		if c.S == nil {
			return nil
		}
		enc, ok := c.S.build()
		if !ok {
			return nil
		}
		opt := lalr.Optimize(enc, c.S.Terms, c.S.Rules, c.DefRed)
		desc := fmt.Sprintf("synthetic table with %d states, %d terminals, %d nonterminals", c.S.States, c.S.Terms, c.S.Nts)
		if f := compareEncodings(enc, opt, c.S.Terms, c.S.Rules, c.DefRed, r, desc); f != nil {
			return f
		}
		if c.S.States >= 40 {
			r.Class("synthetic-large")
		} else {
			r.Class("synthetic-small")
		}
		if interleaved(opt, c.S.Terms) {
			js, _ := json.Marshal(c)
			r.Nontrivial(string(js))
			if r.WantSample() && c.S.States < 8 {
				r.Sample(map[string]any{"synthetic": c.S, "defaultReduce": c.DefRed, "table_len": len(opt.Table)})
			}
		}
	}
	return nil
}

func TestC05(t *testing.T) {
	p := &prop[c05Case]{
		ID:   "C05",
		Rule: "70% tables of generated grammars (C01/C04 generators: family seeds incl. ambiguous expression shapes, random grammars, 60% with %left/%right/%nonassoc and %prec, conflicts allowed, optional minimizeDFA) and 30% synthetic internally consistent DefaultEnc values (2..400 states, 2..60 terminals, lines drawn from shared templates so that identical lines occur), each re-encoded by lalr.Optimize with defaultReduce off/on. For every state x terminal the decoded action and for every state x nonterminal with a goto the decoded target are compared with the default encoding (per table exhaustive). Non-trivial: packing interleaved two lines (overlapping spans in Table) or deduplicated a line (two rows share a base); distinct by case JSON.",
		Assume: []string{"tables with LALR(k) deep-lookahead entries are outside lalr.Optimize's domain and are not generated here", "with defaultReduce a plain error may decode to any of the state's most frequent reductions (ties allowed)"},
		Quick: 30000, Thorough: 1500000,
		Gen:   c05Gen,
		Check: c05Check,
	}
	p.run(t)
}
