package props

import (
	"context"
	"fmt"
	"os"
	"path/filepath"
	"sort"
	"strings"
	"sync"
	"testing"
	"time"

	"github.com/inspirer/textmapper/compiler"
	"github.com/inspirer/textmapper/parsers/tm"
	"github.com/inspirer/textmapper/status"
	"pgregory.net/rapid"

	"verif/harness/internal/ev"
)

// C22 — the grammar compiler never crashes and reports in-range diagnostics.
// Oracle: the contract itself (no panic, no process exit, termination, diagnostics consistent with
// the text); log.Fatal is trapped through the panicking log writer installed in common_test.go.

type c22Case struct {
	Text   []byte `json:"text"` // base64
	Params int    `json:"params"` // bit 0 CheckOnly, 1 Verbose, 2 DebugTables
}

var (
	c22CorpusOnce sync.Once
	c22Corpus     []string
	c22Tokens     []string
	c22HandWritten int // the last so many corpus entries are the hand-written seeds
)

// c22Options: the option names compiler/options.go knows.
var c22Options = []string{"package", "genCopyright", "scanBytes", "caseInsensitive", "tokenLine", "tokenLineOffset", "tokenColumn", "nonBacktracking", "flexMode", "genParser", "optInstantiationSuffix", "aliasIncludesOptSuffix", "cancellable", "cancellableFetch", "writeBison", "recursiveLookaheads", "tokenStream", "eventBased", "genSelector", "fixWhitespace", "debugParser", "optimizeTables", "minimizeDFA", "defaultReduce", "noEmptyRules", "maxLookahead", "disableSyntax", "expansionLimit", "expansionWarn", "eventFields", "eventAST", "extraTypes", "customImpl", "fileNode", "nodePrefix", "lang", "namespace", "includeGuardPrefix", "filenamePrefix", "abseilIncludePrefix", "dirIncludePrefix", "parseParams", "variantStackEntry", "trackReduces", "maxRuleSizeForOrdinalRef", "skipByteOrderMark", "maxLookahead", "maxLookahead"}

func c22LoadCorpus() {
	c22CorpusOnce.Do(func() {
		var files []string
		for _, pat := range []string{"/repo/parsers/*/*.tm", "/repo/compiler/testdata/*.tm", "/repo/compiler/testdata/*.tmerr", "/repo/gen/testdata/*.tm", "/repo/syntax/testdata/*.tm*", "/repo/lalr/testdata/*"} {
			m, _ := filepath.Glob(pat)
			files = append(files, m...)
		}
		sort.Strings(files)
		seenTok := map[string]bool{}
		for _, f := range files {
			data, err := os.ReadFile(f)
			if err != nil || len(data) > 200000 {
				continue
			}
			text := strings.NewReplacer("«", "", "»", "").Replace(string(data))
			// keep the large js grammar out of the mutation pool (slow), but harvest its tokens
			if len(text) < 40000 {
				c22Corpus = append(c22Corpus, text)
			}
			for _, tok := range strings.Fields(text) {
				if len(tok) < 24 && !seenTok[tok] && len(c22Tokens) < 4000 {
					seenTok[tok] = true
					c22Tokens = append(c22Tokens, tok)
				}
			}
		}
		// a few hand-written seeds exercising features the shipped grammars do not combine
		c22Corpus = append(c22Corpus,
			"language g(go);\n:: lexer\n'a': /a/\n:: parser\n%input A;\nA: 'a' ;\n",
			"language g(go);\neventBased = true\n:: lexer\n%s initial, x;\nid: /[a-z]+/ (class)\n'kw': /kw/\n<x> 'b': /b/ { l.State = StateInitial }\n:: parser lalr(2)\n%input A, B no-eoi;\n%left 'kw';\n%flag F = false;\nA<flag X = true> -> N: [X] id | [!X && F] 'kw' | (?= !B) 'kw' id ;\nB: (id separator 'kw')+ set(~id & first A)? .m { _ = $1 } 'kw' %prec 'kw' ;\n%generate S = set(follow A | ~precede B);\n%assert empty set(first A & first B);\n",
			// a conflict that needs two tokens of lookahead, with every table option on
			"language g(go);\noptimizeTables = true\ndefaultReduce = true\nminimizeDFA = true\n:: lexer\n'a': /a/\n'b': /b/\n'c': /c/\n'd': /d/\n:: parser lalr(2)\n%input S, T no-eoi;\nS: A 'a' 'b' | B 'a' 'c' ;\nA: 'd' ;\nB: 'd' ;\nT: S 'd' | 'a' ;\n",
			// bounded lookaheads (maxLookahead) over rules with %prec, arrows and optional parts, every parser option on
			"language g(go);\neventBased = true\nmaxLookahead = 3\nrecursiveLookaheads = true\ncancellable = true\ntokenStream = true\nfixWhitespace = true\neventFields = true\neventAST = true\n:: lexer\nspace: /[ \\t]+/ (space)\nid: /[a-z]+/\n'+': /\\+/\n'(': /\\(/\n')': /\\)/\n:: parser\n%input A;\n%left '+';\nA -> A: (?= P) '(' id ')' | (?= !P & Q) '(' E ')' '+' | E ;\nP: '(' id ')' %prec '+' ;\nQ: '(' R ;\nR -> R: id | '+' id ;\nE -> E: id | E '+' E ;\n",
		)
		c22HandWritten = 4
		c22Tokens = append(c22Tokens, "{", "}", "(", ")", "[", "]", "<", ">", ";", ":", "|", "::", "->", "=", "%", "(?=", "%%", "/a/", "/[/", "'", "\"", "\\", "set(", "~", "&", "?", "*", "+", "$", "@", "lalr(", "-1", "99999999999999999999", "\xff", "\x00", "é", "%input", "%left", "%flag", "%generate", "%assert", "%expect", "%interface", "%inject", "no-eoi", "separator", "as", "true", "false", "error", "eoi", "invalid_token", "(class)", "(space)", "%s", "%x", "language", "lexer", "parser")
	})
}

func c22Gen(t *rapid.T) c22Case {
	c22LoadCorpus()
	var text string
	switch rapid.IntRange(0, 9).Draw(t, "base") {
	case 0: // a generated grammar (C17 generator)
		c := c17Gen(t)
		text = c.render("g")
	case 1, 2: // a hand-written seed
		text = c22Corpus[len(c22Corpus)-1-rapid.IntRange(0, c22HandWritten-1).Draw(t, "seedText")]
	default:
		text = c22Corpus[rapid.IntRange(0, len(c22Corpus)-1).Draw(t, "corpus")]
	}
	n := rapid.IntRange(0, 4).Draw(t, "mutations")
	for i := 0; i < n; i++ {
		switch rapid.IntRange(0, 15).Draw(t, "mop") {
		case 0, 1: // replace a token
			f := strings.Fields(text)
			if len(f) == 0 {
				break
			}
			k := rapid.IntRange(0, len(f)-1).Draw(t, "which")
			old := f[k]
			nw := c22Tokens[rapid.IntRange(0, len(c22Tokens)-1).Draw(t, "tok")]
			idx := strings.Index(text, old)
			// choose the k-th occurrence region roughly: replace first occurrence after a random offset
			off := rapid.IntRange(0, len(text)).Draw(t, "off")
			if j := strings.Index(text[off:], old); j >= 0 {
				idx = off + j
			}
			if idx >= 0 {
				text = text[:idx] + nw + text[idx+len(old):]
			}
		case 2: // delete a token / range
			a := rapid.IntRange(0, len(text)).Draw(t, "a")
			b := a + rapid.IntRange(0, 12).Draw(t, "len")
			if b > len(text) {
				b = len(text)
			}
			text = text[:a] + text[b:]
		case 3: // insert a token
			a := rapid.IntRange(0, len(text)).Draw(t, "a")
			text = text[:a] + " " + c22Tokens[rapid.IntRange(0, len(c22Tokens)-1).Draw(t, "tok")] + " " + text[a:]
		case 4: // duplicate a line
			lines := strings.Split(text, "\n")
			k := rapid.IntRange(0, len(lines)-1).Draw(t, "line")
			lines = append(lines[:k+1], lines[k:]...)
			text = strings.Join(lines, "\n")
		case 5: // delete a line
			lines := strings.Split(text, "\n")
			if len(lines) > 1 {
				k := rapid.IntRange(0, len(lines)-1).Draw(t, "line")
				lines = append(lines[:k:k], lines[k+1:]...)
				text = strings.Join(lines, "\n")
			}
		case 6: // splice a section of another grammar
			other := c22Corpus[rapid.IntRange(0, len(c22Corpus)-1).Draw(t, "other")]
			ol := strings.Split(other, "\n")
			k := rapid.IntRange(0, len(ol)-1).Draw(t, "oline")
			m := rapid.IntRange(1, 6).Draw(t, "olen")
			if k+m > len(ol) {
				m = len(ol) - k
			}
			lines := strings.Split(text, "\n")
			at := rapid.IntRange(0, len(lines)).Draw(t, "at")
			lines = append(lines[:at:at], append(append([]string(nil), ol[k:k+m]...), lines[at:]...)...)
			text = strings.Join(lines, "\n")
		case 7: // flip an option value
			for _, pair := range [][2]string{{"= true", "= false"}, {"= false", "= true"}} {
				if i := strings.Index(text, pair[0]); i >= 0 && rapid.Bool().Draw(t, "flip") {
					text = text[:i] + pair[1] + text[i+len(pair[0]):]
					break
				}
			}
		case 8: // raw byte
			if len(text) > 0 {
				a := rapid.IntRange(0, len(text)-1).Draw(t, "a")
				text = text[:a] + string([]byte{byte(rapid.IntRange(0, 255).Draw(t, "byte"))}) + text[a+1:]
			}
		case 9: // truncate
			text = text[:rapid.IntRange(0, len(text)).Draw(t, "cut")]
		case 10: // truncate right behind a delimiter (an unterminated construct at the end of input)
			var at []int
			for i := 0; i < len(text); i++ {
				if strings.IndexByte("/{'\"\\[(<%*", text[i]) >= 0 {
					at = append(at, i+1)
				}
			}
			if len(at) > 0 {
				text = text[:at[rapid.IntRange(0, len(at)-1).Draw(t, "cutAt")]]
			}
		case 11: // end the text with an opening delimiter, possibly inside a code block
			tails := []string{"/", "{", "{ /", "{ a /", "{ '", "{ \"", "{ /*", "{ //", "'", "\"", "/*", "/[", "/\\", "(?=", "<", "%", "[", "{ \\"}
			text = strings.TrimRight(text, " \n") + " " + tails[rapid.IntRange(0, len(tails)-1).Draw(t, "tail")]
		case 14: // a snippet that moves line/column bookkeeping, put at a token boundary
			snippets := []string{"/*", "x/*", "/* \n", "'", "\"", "{", "a1 = /x{a2}?/\na2 = /y{a1}/\nt1: /{a1}/\n", "b1 = /{b1}/\nt2: /{b1}+/\n", "c1 = /p{c2}/\nc2 = /q{c3}*/\nc3 = /r{c1}|s/\nt3: /{c2}/\n", "/* é€😀 */", "'é'", "'€€'", "# ü😀\n", "{ \"\\\n\" }", "{ '\\\n' }", "{ \"\\\\\n\" }", "{ /* \n */ }", "{ // }\n }", "{ \"\n\" }", "/\\\n/", "\"\\\n\"", "'\\\n'", "\r\n", "\r", "\t", "\xef\xbb\xbf", "{ `\n` }", "{{ \"}\\\n\" }}"}
			var at []int
			for i := 0; i < len(text); i++ {
				if text[i] == ' ' || text[i] == '\n' {
					at = append(at, i)
				}
			}
			if len(at) > 0 {
				a := at[rapid.IntRange(0, len(at)-1).Draw(t, "snippetAt")]
				text = text[:a] + " " + snippets[rapid.IntRange(0, len(snippets)-1).Draw(t, "snippet")] + text[a:]
			}
		case 15: // lexer lines behind the section header: named patterns that refer to each other, odd rules
			lines := []string{"a1 = /x{a2}?/\na2 = /y{a1}/\nt1: /{a1}/\n", "b1 = /{b1}/\nt2: /{b1}+/\n", "c1 = /p{c2}/\nc2 = /q{c3}*/\nc3 = /r{c1}|s/\nt3: /{c2}/\n",
				"d1 = /{nosuch}/\nt4: /{d1}/\n", "t5: /()/\n", "t6: /a{0}/\n", "t7: /[^\\x00-\\x{10ffff}]/\n", "t8: /(?i)\\p{Lu}+/ -1\n", "<*> t9: /z/\n", "%x sx;\n<sx> { t10: /q/ }\n", "t11: /a/ (class)\nt12: /a/\n", "invalid_token: /\\?+/\n", "eoi: /\\$/\n", "error:\n"}
			if i := strings.Index(text, ":: lexer"); i >= 0 {
				if j := strings.IndexByte(text[i:], '\n'); j >= 0 {
					at := i + j + 1
					text = text[:at] + lines[rapid.IntRange(0, len(lines)-1).Draw(t, "lexerLines")] + text[at:]
				}
			}
		case 12, 13: // set an option right behind the header: every option meets every grammar shape
			opt := c22Options[rapid.IntRange(0, len(c22Options)-1).Draw(t, "option")]
			vals := []string{"true", "false", "0", "1", "2", "3", "-1", "64", "\"x\"", "[]", "[\"a\"]", "[a]", "a"}
			if i := strings.Index(text, ";"); i >= 0 && strings.HasPrefix(text, "language") {
				text = text[:i+1] + "\n" + opt + " = " + vals[rapid.IntRange(0, len(vals)-1).Draw(t, "value")] + "\n" + text[i+1:]
			}
		}
	}
	if len(text) > 60000 {
		text = text[:60000]
	}
	return c22Case{Text: []byte(text), Params: rapid.IntRange(0, 7).Draw(t, "params")}
}

func c22CheckRange(text string, off, end, line, col int, what string) *Failure {
	if off < 0 || off > end || end > len(text) {
		return failf("diagnostic-out-of-range", "%s: range [%d,%d) outside the text of %d bytes", what, off, end, len(text))
	}
	wantLine := 1 + strings.Count(text[:off], "\n")
	wantCol := off - strings.LastIndexByte(text[:off], '\n')
	if line != wantLine {
		return failf("diagnostic-line", "%s: offset %d is on line %d but the diagnostic says line %d", what, off, wantLine, line)
	}
	if col > 0 && col != wantCol {
		return failf("diagnostic-column", "%s: offset %d is at column %d (1-based, bytes) but the diagnostic says column %d", what, off, wantCol, col)
	}
	return nil
}

func c22Check(c c22Case, r *ev.Recorder) *Failure {
	text := string(c.Text)
	params := compiler.Params{CheckOnly: c.Params&1 != 0, Verbose: c.Params&2 != 0, DebugTables: c.Params&4 != 0}
	type result struct {
		err   error
		fail  *Failure
		okGen bool
	}
	ch := make(chan result, 1)
	go func() {
		var res result
		res.fail = guard(func() *Failure {
			g, err := compiler.Compile(context.Background(), "f.tm", text, params)
			res.err = err
			res.okGen = g != nil && g.Parser != nil && g.Parser.Tables != nil
			return nil
		})
		ch <- res
	}()
	var res result
	select {
	case res = <-ch:
	case <-time.After(60 * time.Second):
		return failf("compile-does-not-terminate", "compiler.Compile did not return within 60s on a text of %d bytes:\n%s", len(text), trimText(text))
	}
	r.Eval(1)
	if res.fail != nil {
		res.fail.Msg += "\ngrammar text:\n" + trimText(text)
		return res.fail
	}
	semantic := false
	switch e := res.err.(type) {
	case nil:
		r.Class("compiles")
	case tm.SyntaxError:
		r.Class("syntax-error")
		if f := c22CheckRange(text, e.Offset, e.Endoffset, e.Line, 0, "syntax error"); f != nil {
			f.Msg += "\ngrammar text:\n" + trimText(text)
			return f
		}
	default:
		list := status.FromError(res.err)
		for _, d := range list {
			if d.Origin.Filename == "" {
				continue
			}
			semantic = true
			if f := c22CheckRange(text, d.Origin.Offset, d.Origin.EndOffset, d.Origin.Line, d.Origin.Column, fmt.Sprintf("diagnostic %q", d.Msg)); f != nil {
				f.Msg += "\ngrammar text:\n" + trimText(text)
				return f
			}
		}
		r.Class("semantic-errors")
	}
	if semantic || res.okGen {
		r.Nontrivial(text)
		if r.WantSample() && len(text) < 400 && semantic {
			r.Sample(map[string]any{"text": text, "error": firstWords(res.err.Error(), 12)})
		}
	}
	return nil
}

func trimText(s string) string {
	if len(s) > 1500 {
		return s[:1500] + "\n...(truncated)"
	}
	return s
}

func TestC22(t *testing.T) {
	p := &prop[c22Case]{
		ID:   "C22",
		Rule: "grammar texts: 70% a file from the repository (5 shipped grammars and every compiler/gen/syntax testdata grammar, «» markers removed), 20% one of four hand-written feature-dense seeds (one with a conflict that needs lalr(2) under every table option, one with maxLookahead-bounded lookaheads over %prec rules), 10% a generated grammar (C17 generator), with 0..4 mutations: replace/insert a token taken from any corpus file or a list of hostile tokens, delete a byte range, duplicate/delete a line, splice lines from another grammar, flip an option value, overwrite a raw byte, truncate (anywhere, behind a delimiter, or ending in an opening delimiter), set one of the 46 known options to one of 13 values behind the header, insert lexer lines behind `:: lexer` (named patterns that refer to themselves or to each other, empty and degenerate patterns, start conditions, class/keyword pairs, rules for eoi/invalid_token/error), insert one of 28 snippets (unterminated comments, strings and code blocks in the middle of the text; snippets) that move line/column bookkeeping (non-ASCII comments and terminals, escaped and raw newlines inside quoted strings of code blocks, CR, BOM) at a token boundary; Params CheckOnly/Verbose/DebugTables in all 8 combinations. compiler.Compile must return (panics and log.Fatal are trapped; 60 s watchdog); every status.Error must have 0<=Offset<=EndOffset<=len(text) with Line/Column consistent with the offset; a tm.SyntaxError likewise (offset, line). Thorough adds native coverage-guided fuzzing (FuzzC22). Non-trivial: the text parses and produces a semantic diagnostic or reaches table generation; distinct by text.",
		Quick: 24000, Thorough: 160000,
		Gen:      c22Gen,
		Check:    c22Check,
		Inflight: true,
	}
	p.run(t)
}

// FuzzC22 is the native fuzz entry (thorough tier).
func FuzzC22(f *testing.F) {
	c22LoadCorpus()
	for _, s := range c22Corpus {
		if len(s) < 6000 {
			f.Add([]byte(s), byte(0))
		}
	}
	f.Add([]byte(""), byte(3))
	f.Fuzz(func(t *testing.T, data []byte, params byte) {
		if len(data) > 20000 {
			return
		}
		rec := ev.New("C22")
		if fl := c22Check(c22Case{Text: data, Params: int(params & 7)}, rec); fl != nil {
			if _, ok := loadKnown("C22")[fl.Key]; ok {
				return
			}
			t.Fatalf("%s: %s", fl.Key, fl.Msg)
		}
	})
}
