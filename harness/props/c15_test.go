package props

import (
	"context"
	"encoding/json"
	"fmt"
	"sort"
	"strings"
	"testing"

	"github.com/inspirer/textmapper/compiler"
	"pgregory.net/rapid"

	"verif/harness/internal/ev"
)

// C15 — token sets equal their fixpoint definitions. Oracle: an independent evaluation of
// first/last/follow/precede/any over the plain rules of the generated grammar (stratified least
// fixpoint: strongly connected components of the dependency graph in topological order, a
// complement inside a cycle means "rejected").

type sExpr struct {
	Op  string   `json:"op"` // any first last follow precede | ref | or and not
	Sym int      `json:"sym,omitempty"`
	Ref int      `json:"ref,omitempty"`
	Sub []*sExpr `json:"sub,omitempty"`
}

type c15RuleSet struct {
	NT   int    `json:"nt"` // symbol number (>= G.T+G.N-len(RuleSets))
	Expr *sExpr `json:"expr"`
}

type c15Case struct {
	G        gSpec        `json:"g"`     // includes the set nonterminals (without rules) in N
	Named    []*sExpr     `json:"named"` // %generate s<i> = set(...)
	RuleSets []c15RuleSet `json:"rulesets"`
	Asserts  []*sExpr     `json:"asserts,omitempty"`
	// ErrRules: rules (indices into G.Rules) that get the 'error' terminal at a position.
	ErrRules map[int]int `json:"errrules,omitempty"`
	// LA: rules (indices into G.Rules) that start with a lookahead `(?= A & !B)`; the entries are
	// nonterminal symbols, negated ones as -1-symbol. A lookahead derives nothing, but the
	// nonterminals it mentions are reachable through it.
	LA map[int][]int `json:"la,omitempty"`
	// PrecRules: rules (indices into G.Rules) that end in `%prec <terminal>`: the marker wraps
	// the whole rule in the syntax model and changes nothing about the symbols of the rule.
	PrecRules map[int]int `json:"precrules,omitempty"`
}

func genSExpr(t *rapid.T, g *gSpec, named int, depth int) *sExpr {
	k := rapid.IntRange(0, 11).Draw(t, "sk")
	if depth >= 3 && k >= 7 {
		k = k % 7
	}
	switch {
	case k < 5:
		op := []string{"any", "first", "last", "follow", "precede"}[rapid.IntRange(0, 4).Draw(t, "op")]
		var sym int
		if rapid.IntRange(0, 2).Draw(t, "term") == 0 {
			sym = rapid.IntRange(0, g.T-1).Draw(t, "t") // includes eoi
			if sym == 0 {
				op = "any"
			}
		} else {
			sym = rapid.IntRange(g.T, g.T+g.N-1).Draw(t, "n")
		}
		return &sExpr{Op: op, Sym: sym}
	case k < 7:
		if named == 0 {
			return &sExpr{Op: "any", Sym: rapid.IntRange(1, g.T-1).Draw(t, "t")}
		}
		return &sExpr{Op: "ref", Ref: rapid.IntRange(0, named-1).Draw(t, "ref")}
	case k < 9:
		return &sExpr{Op: "or", Sub: []*sExpr{genSExpr(t, g, named, depth+1), genSExpr(t, g, named, depth+1)}}
	case k < 10:
		return &sExpr{Op: "and", Sub: []*sExpr{genSExpr(t, g, named, depth+1), genSExpr(t, g, named, depth+1)}}
	default:
		return &sExpr{Op: "not", Sub: []*sExpr{genSExpr(t, g, named, depth+1)}}
	}
}

func c15Gen(t *rapid.T) c15Case {
	o := gDefaultOpts
	o.MaxInputs = 2
	o.NoEoiPercent = 15
	c := c15Case{G: genGSpec(t, o)}
	g := &c.G
	if g.T < 2 {
		g.T = 2
	}
	nNamed := rapid.IntRange(0, 4).Draw(t, "named")
	nRule := rapid.IntRange(0, 2).Draw(t, "rulesets")
	base := g.T + g.N
	g.N += nRule
	for i := 0; i < nNamed; i++ {
		c.Named = append(c.Named, genSExpr(t, g, nNamed, 0))
	}
	for i := 0; i < nRule; i++ {
		c.RuleSets = append(c.RuleSets, c15RuleSet{NT: base + i, Expr: genSExpr(t, g, nNamed, 0)})
		// use the set nonterminal in 1..2 rules
		for u := rapid.IntRange(1, 2).Draw(t, "uses"); u > 0 && len(g.Rules) > 0; u-- {
			ri := rapid.IntRange(0, len(g.Rules)-1).Draw(t, "useRule")
			r := &g.Rules[ri]
			if r.L >= base {
				continue
			}
			pos := rapid.IntRange(0, len(r.R)).Draw(t, "usePos")
			r.R = append(r.R[:pos:pos], append([]int{base + i}, r.R[pos:]...)...)
		}
	}
	if rapid.IntRange(0, 4).Draw(t, "assert") == 0 {
		c.Asserts = append(c.Asserts, genSExpr(t, g, nNamed, 1))
	}
	if rapid.IntRange(0, 2).Draw(t, "error") == 0 && len(g.Rules) > 0 {
		c.ErrRules = map[int]int{}
		for n := rapid.IntRange(1, 2).Draw(t, "nerr"); n > 0; n-- {
			ri := rapid.IntRange(0, len(g.Rules)-1).Draw(t, "errRule")
			if g.Rules[ri].L >= base {
				continue
			}
			c.ErrRules[ri] = rapid.IntRange(0, len(g.Rules[ri].R)).Draw(t, "errPos")
		}
	}
	if rapid.IntRange(0, 3).Draw(t, "lookaheads") == 0 && len(g.Rules) > 0 && base > g.T {
		c.LA = map[int][]int{}
		for n := rapid.IntRange(1, 2).Draw(t, "nla"); n > 0; n-- {
			ri := rapid.IntRange(0, len(g.Rules)-1).Draw(t, "laRule")
			if g.Rules[ri].L >= base {
				continue
			}
			var preds []int
			for k := rapid.IntRange(1, 2).Draw(t, "laPreds"); k > 0; k-- {
				nt := rapid.IntRange(g.T, base-1).Draw(t, "laNT")
				if rapid.Bool().Draw(t, "laNeg") {
					nt = -1 - nt
				}
				preds = append(preds, nt)
			}
			c.LA[ri] = preds
		}
	}
	if rapid.IntRange(0, 2).Draw(t, "precMarkers") == 0 && len(g.Rules) > 0 && g.T > 1 {
		c.PrecRules = map[int]int{}
		for n := rapid.IntRange(1, 3).Draw(t, "nprec"); n > 0; n-- {
			ri := rapid.IntRange(0, len(g.Rules)-1).Draw(t, "precRule")
			if g.Rules[ri].L < base {
				c.PrecRules[ri] = rapid.IntRange(1, g.T-1).Draw(t, "precTerm")
			}
		}
	}
	return c
}

const c15Err = -1 // pseudo symbol number of the 'error' terminal in rules of the model

func (c *c15Case) isSetNT(s int) bool { return s >= c.G.T+c.G.N-len(c.RuleSets) }

func (c *c15Case) renderExpr(e *sExpr) string {
	g := &c.G
	switch e.Op {
	case "ref":
		return fmt.Sprintf("s%d", e.Ref)
	case "or":
		return "(" + c.renderExpr(e.Sub[0]) + " | " + c.renderExpr(e.Sub[1]) + ")"
	case "and":
		return "(" + c.renderExpr(e.Sub[0]) + " & " + c.renderExpr(e.Sub[1]) + ")"
	case "not":
		return "~(" + c.renderExpr(e.Sub[0]) + ")"
	}
	name := g.symName(e.Sym)
	if e.Sym > 0 && e.Sym < g.T {
		name = tmTermName(g, e.Sym)
	}
	if e.Op == "any" {
		return name
	}
	return e.Op + " " + name
}

// rules returns the plain rules of the model grammar including 'error' insertions.
func (c *c15Case) rules() []gRule {
	var out []gRule
	for i, r := range c.G.Rules {
		rr := gRule{L: r.L, R: append([]int(nil), r.R...)}
		if pos, ok := c.ErrRules[i]; ok && pos <= len(rr.R) {
			rr.R = append(rr.R[:pos:pos], append([]int{c15Err}, rr.R[pos:]...)...)
		}
		out = append(out, rr)
	}
	return out
}

func (c *c15Case) render() string {
	g := &c.G
	var sb strings.Builder
	sb.WriteString("language g(go);\n\n:: lexer\n\n")
	if len(c.ErrRules) > 0 {
		sb.WriteString("error:\n")
	}
	for t := 1; t < g.T; t++ {
		fmt.Fprintf(&sb, "%s: /%s/\n", tmTermName(g, t), g.symName(t))
	}
	sb.WriteString("\n:: parser\n\n%input ")
	for i, inp := range g.Inputs {
		if i > 0 {
			sb.WriteString(", ")
		}
		sb.WriteString(g.symName(inp.NT))
		if !inp.Eoi {
			sb.WriteString(" no-eoi")
		}
	}
	sb.WriteString(";\n\n")
	for i, e := range c.Named {
		fmt.Fprintf(&sb, "%%generate s%d = set(%s);\n", i, c.renderExpr(e))
	}
	for i, e := range c.Asserts {
		fmt.Fprintf(&sb, "%%assert %s set(%s);\n", []string{"empty", "nonempty"}[i%2], c.renderExpr(e))
	}
	sb.WriteString("\n")
	sym := func(s int) string {
		switch {
		case s == c15Err:
			return "error"
		case s < g.T:
			return tmTermName(g, s)
		}
		return g.symName(s)
	}
	rules := c.rules()
	var order []int
	byLHS := map[int][]int{}
	for i, r := range rules {
		if _, ok := byLHS[r.L]; !ok {
			order = append(order, r.L)
		}
		byLHS[r.L] = append(byLHS[r.L], i)
	}
	for _, lhs := range order {
		fmt.Fprintf(&sb, "%s:\n", g.symName(lhs))
		for k, ri := range byLHS[lhs] {
			r := rules[ri]
			if k == 0 {
				sb.WriteString("    ")
			} else {
				sb.WriteString("  | ")
			}
			var parts []string
			if preds := c.LA[ri]; len(preds) > 0 {
				var ps []string
				for _, p := range preds {
					if p < 0 {
						ps = append(ps, "!"+g.symName(-1-p))
					} else {
						ps = append(ps, g.symName(p))
					}
				}
				parts = append(parts, "(?= "+strings.Join(ps, " & ")+")")
			}
			for _, s := range r.R {
				parts = append(parts, sym(s))
			}
			if len(parts) == 0 {
				parts = []string{"%empty"}
			}
			if pt, ok := c.PrecRules[ri]; ok {
				parts = append(parts, "%prec "+tmTermName(g, pt))
			}
			sb.WriteString(strings.Join(parts, " ") + "\n")
		}
		sb.WriteString(";\n\n")
	}
	for _, rs := range c.RuleSets {
		fmt.Fprintf(&sb, "%s:\n    set(%s)\n;\n\n", g.symName(rs.NT), c.renderExpr(rs.Expr))
	}
	return sb.String()
}

// ---------- the oracle

type c15Var struct {
	kind string // op name, "expr", "named", "ruleset"
	sym  int
	expr *sExpr
	idx  int
}

type c15Oracle struct {
	c        *c15Case
	rules    []gRule
	nullable map[int]bool
	reach    map[int]bool // nonterminals whose rules count (reachable from the first eoi input)
	universe []int // symbol numbers of all terminals (0, 1..T-1, c15Err when declared, -2 invalid_token)
	vars     []c15Var
	index    map[string]int
	deps     [][]int
	compl    map[int]bool // var is a complement expression
	val      []map[int]bool
}

const c15Invalid = -2

func (o *c15Oracle) isTerm(s int) bool { return s < o.c.G.T }

func (o *c15Oracle) get(kind string, sym int, e *sExpr, idx int) int {
	key := fmt.Sprintf("%s/%d/%p/%d", kind, sym, e, idx)
	if v, ok := o.index[key]; ok {
		return v
	}
	v := len(o.vars)
	o.index[key] = v
	o.vars = append(o.vars, c15Var{kind, sym, e, idx})
	o.deps = append(o.deps, nil)
	d := o.equationDeps(v)
	o.deps[v] = d
	return v
}

func (o *c15Oracle) exprVar(e *sExpr) int {
	switch e.Op {
	case "ref":
		return o.get("named", 0, nil, e.Ref)
	case "or", "and", "not":
		return o.get("expr", 0, e, 0)
	}
	return o.get(e.Op, e.Sym, nil, 0)
}

// equationDeps creates the variables a variable depends on.
func (o *c15Oracle) equationDeps(v int) []int {
	x := o.vars[v]
	var d []int
	switch x.kind {
	case "named":
		d = append(d, o.exprVar(o.c.Named[x.idx]))
	case "ruleset":
		d = append(d, o.exprVar(o.c.RuleSets[x.idx].Expr))
	case "expr":
		if x.expr.Op == "not" {
			o.compl[v] = true
		}
		for _, s := range x.expr.Sub {
			d = append(d, o.exprVar(s))
		}
	case "any", "first", "last":
		if o.isTerm(x.sym) {
			return nil
		}
		if o.c.isSetNT(x.sym) {
			if o.reach[x.sym] {
				d = append(d, o.get("ruleset", 0, nil, x.sym-(o.c.G.T+o.c.G.N-len(o.c.RuleSets))))
			}
			return d
		}
		for _, r := range o.rules {
			if r.L != x.sym || !o.reach[r.L] {
				continue
			}
			switch x.kind {
			case "any":
				for _, s := range r.R {
					d = append(d, o.get("any", s, nil, 0))
				}
			case "first":
				for _, s := range r.R {
					d = append(d, o.get("first", s, nil, 0))
					if !o.nullable[s] {
						break
					}
				}
			case "last":
				for i := len(r.R) - 1; i >= 0; i-- {
					d = append(d, o.get("last", r.R[i], nil, 0))
					if !o.nullable[r.R[i]] {
						break
					}
				}
			}
		}
	case "follow", "precede":
		for _, r := range o.rules {
			if !o.reach[r.L] {
				continue
			}
			for pos, s := range r.R {
				if s != x.sym {
					continue
				}
				scoped := false
				if x.kind == "follow" {
					for i := pos + 1; i < len(r.R); i++ {
						d = append(d, o.get("first", r.R[i], nil, 0))
						if !o.nullable[r.R[i]] {
							scoped = true
							break
						}
					}
				} else {
					for i := pos - 1; i >= 0; i-- {
						d = append(d, o.get("last", r.R[i], nil, 0))
						if !o.nullable[r.R[i]] {
							scoped = true
							break
						}
					}
				}
				if !scoped {
					d = append(d, o.get(x.kind, r.L, nil, 0))
				}
			}
		}
	}
	return d
}

// eval computes the value of v from the current values of its dependencies.
func (o *c15Oracle) eval(v int) map[int]bool {
	x := o.vars[v]
	out := map[int]bool{}
	switch x.kind {
	case "expr":
		switch x.expr.Op {
		case "not":
			in := o.val[o.deps[v][0]]
			for _, t := range o.universe {
				if !in[t] {
					out[t] = true
				}
			}
			return out
		case "and":
			a, b := o.val[o.deps[v][0]], o.val[o.deps[v][1]]
			for t := range a {
				if b[t] {
					out[t] = true
				}
			}
			return out
		}
	case "any", "first", "last":
		if o.isTerm(x.sym) {
			out[x.sym] = true
			return out
		}
	}
	for _, d := range o.deps[v] {
		for t := range o.val[d] {
			out[t] = true
		}
	}
	return out
}

// solve evaluates all variables; cyclic reports a complement inside a dependency cycle.
func (o *c15Oracle) solve() (cyclic bool) {
	n := len(o.vars)
	o.val = make([]map[int]bool, n)
	// Tarjan
	index := make([]int, n)
	low := make([]int, n)
	on := make([]bool, n)
	for i := range index {
		index[i] = -1
	}
	var stack []int
	next := 0
	var sccs [][]int
	var strong func(v int)
	strong = func(v int) {
		index[v], low[v] = next, next
		next++
		stack = append(stack, v)
		on[v] = true
		for _, w := range o.deps[v] {
			if index[w] == -1 {
				strong(w)
				if low[w] < low[v] {
					low[v] = low[w]
				}
			} else if on[w] && index[w] < low[v] {
				low[v] = index[w]
			}
		}
		if low[v] == index[v] {
			var comp []int
			for {
				w := stack[len(stack)-1]
				stack = stack[:len(stack)-1]
				on[w] = false
				comp = append(comp, w)
				if w == v {
					break
				}
			}
			sccs = append(sccs, comp) // dependencies first
		}
	}
	for v := 0; v < n; v++ {
		if index[v] == -1 {
			strong(v)
		}
	}
	for _, comp := range sccs {
		selfLoop := false
		for _, v := range comp {
			for _, w := range o.deps[v] {
				if w == v {
					selfLoop = true
				}
			}
		}
		if len(comp) > 1 || selfLoop {
			for _, v := range comp {
				if o.compl[v] {
					return true
				}
			}
		}
		for _, v := range comp {
			o.val[v] = map[int]bool{}
		}
		for changed := true; changed; {
			changed = false
			for _, v := range comp {
				nv := o.eval(v)
				if len(nv) != len(o.val[v]) {
					o.val[v] = nv
					changed = true
				}
			}
		}
	}
	return false
}

func newC15Oracle(c *c15Case) *c15Oracle {
	o := &c15Oracle{c: c, rules: c.rules(), nullable: map[int]bool{}, index: map[string]int{}, compl: map[int]bool{}, reach: map[int]bool{}}
	g := &c.G
	for changed := true; changed; {
		changed = false
		for _, r := range o.rules {
			if o.nullable[r.L] {
				continue
			}
			all := true
			for _, s := range r.R {
				all = all && o.nullable[s]
			}
			if all {
				o.nullable[r.L] = true
				changed = true
			}
		}
	}
	// rules reachable from the first input with an end-of-input marker; symbols mentioned in the
	// expression of a reachable set nonterminal (through named sets too) are reachable.
	var queue []int
	push := func(s int) {
		if s >= g.T && !o.reach[s] {
			o.reach[s] = true
			queue = append(queue, s)
		}
	}
	for _, inp := range g.Inputs {
		if inp.Eoi {
			push(inp.NT)
			break
		}
	}
	var visitExpr func(e *sExpr, seen map[*sExpr]bool)
	visitExpr = func(e *sExpr, seen map[*sExpr]bool) {
		if seen[e] {
			return
		}
		seen[e] = true
		switch e.Op {
		case "ref":
			visitExpr(c.Named[e.Ref], seen)
		case "or", "and", "not":
			for _, s := range e.Sub {
				visitExpr(s, seen)
			}
		default:
			push(e.Sym)
		}
	}
	for len(queue) > 0 {
		nt := queue[len(queue)-1]
		queue = queue[:len(queue)-1]
		if c.isSetNT(nt) {
			visitExpr(c.RuleSets[nt-(g.T+g.N-len(c.RuleSets))].Expr, map[*sExpr]bool{})
			continue
		}
		for ri, r := range o.rules {
			if r.L == nt {
				for _, s := range r.R {
					push(s)
				}
				for _, p := range c.LA[ri] {
					if p < 0 {
						p = -1 - p
					}
					push(p)
				}
			}
		}
	}
	return o
}

func c15Check(c c15Case, r *ev.Recorder) *Failure {
	g := &c.G
	if len(g.Inputs) == 0 || g.T < 2 {
		return nil
	}
	src := c.render()
	out, err := compiler.Compile(context.Background(), "g.tm", src, compiler.Params{})
	r.Eval(1)
	o := newC15Oracle(&c)
	var roots []int
	for i := range c.Named {
		roots = append(roots, o.get("named", 0, nil, i))
	}
	for i := range c.RuleSets {
		roots = append(roots, o.get("ruleset", 0, nil, i))
	}
	for _, a := range c.Asserts {
		o.exprVar(a)
	}
	afterErr := -1
	if len(c.ErrRules) > 0 {
		afterErr = o.get("follow", c15Err, nil, 0)
	}
	// universe needs the compiled grammar's terminal list; complement-cycle detection does not
	o.universe = nil
	cyclic := o.solve()
	errText := ""
	if err != nil {
		errText = err.Error()
	}
	complErr := strings.Contains(errText, "set complement cannot transitively depend on itself")
	onlyConflicts := true
	for _, line := range strings.Split(errText, "\n") {
		if strings.TrimSpace(line) != "" && !strings.Contains(line, "conflict") && !strings.Contains(line, ": input:") && !strings.HasPrefix(line, " ") && !strings.HasPrefix(line, "\t") {
			onlyConflicts = false
		}
	}
	if cyclic {
		if !complErr && err != nil && !onlyConflicts {
			// another error (e.g. an undefined nonterminal) stops the compiler before sets are resolved
			r.Excluded("rejected-before-set-resolution")
			return nil
		}
		if !complErr {
			return failf("self-dependent-complement-accepted", "a set complement depends on itself but the compiler reports %q; grammar:\n%s", oneLine(errText, 300), src)
		}
		r.Class("complement-cycle-rejected")
		r.Nontrivial(src)
		return nil
	}
	if complErr {
		return failf("complement-rejected-without-cycle", "the compiler reports a self-dependent complement, the oracle finds no cycle through a complement; grammar:\n%s", src)
	}
	if out == nil || out.Parser == nil || !onlyConflicts {
		msg := errText
		if i := strings.Index(msg, ": "); i > 0 {
			msg = msg[i+2:]
		}
		if strings.Contains(msg, "conflict") {
			r.Excluded("rejected:lalr-conflicts")
		} else {
			r.Excluded("rejected:" + firstWords(c17Num.ReplaceAllString(msg, "N"), 3))
		}
		return nil
	}
	// terminal numbering of the compiled grammar
	num := map[string]int{}
	for i := 0; i < out.NumTokens; i++ {
		num[out.Syms[i].Name] = i
	}
	toModel := map[int]int{} // compiled terminal index -> model symbol
	name := func(s int) string {
		switch {
		case s == 0:
			return "eoi"
		case s == c15Err:
			return "error"
		case s == c15Invalid:
			return "invalid_token"
		}
		return tmTermName(g, s)
	}
	o.universe = nil
	for i := 0; i < out.NumTokens; i++ {
		found := false
		for _, s := range append([]int{0, c15Err, c15Invalid}, seq(1, g.T)...) {
			if name(s) == out.Syms[i].Name {
				toModel[i] = s
				o.universe = append(o.universe, s)
				found = true
			}
		}
		if !found {
			return failf("harness-unknown-terminal", "compiled grammar has terminal %q unknown to the model", out.Syms[i].Name)
		}
	}
	if o.solve() {
		return failf("harness", "oracle became cyclic")
	}
	show := func(m map[int]bool) string {
		var xs []string
		for s := range m {
			xs = append(xs, name(s))
		}
		sort.Strings(xs)
		return "{" + strings.Join(xs, " ") + "}"
	}
	compare := func(what string, want map[int]bool, gotTerms []int) *Failure {
		got := map[int]bool{}
		for _, t := range gotTerms {
			got[toModel[t]] = true
		}
		if show(got) != show(want) {
			return failf("wrong-set", "%s resolves to %s, the definition gives %s; grammar:\n%s", what, show(got), show(want), src)
		}
		return nil
	}
	interesting := false
	for i, e := range c.Named {
		var got []int
		found := false
		for _, s := range out.Sets {
			if s.Name == fmt.Sprintf("s%d", i) {
				got, found = s.Terminals, true
			}
		}
		if !found {
			return failf("named-set-missing", "named set s%d is not in Grammar.Sets; grammar:\n%s", i, src)
		}
		want := o.val[roots[i]]
		if f := compare(fmt.Sprintf("%%generate s%d = set(%s)", i, c.renderExpr(e)), want, got); f != nil {
			return f
		}
		if len(want) > 0 && len(want) < len(o.universe) {
			interesting = true
		}
	}
	for i, rs := range c.RuleSets {
		ntName := g.symName(rs.NT)
		var got []int
		for _, rule := range out.Parser.Rules {
			if out.Syms[rule.LHS].Name == ntName {
				for _, s := range rule.RHS {
					if !s.IsStateMarker() {
						got = append(got, int(s))
					}
				}
			}
		}
		want := o.val[roots[len(c.Named)+i]]
		if f := compare(fmt.Sprintf("%s: set(%s)", ntName, c.renderExpr(rs.Expr)), want, got); f != nil {
			return f
		}
		if len(want) > 0 {
			interesting = true
		}
	}
	if afterErr >= 0 {
		var got []int
		found := false
		for _, s := range out.Sets {
			if s.Name == "afterErr" {
				got, found = s.Terminals, true
			}
		}
		if !found {
			return failf("afterErr-missing", "the grammar uses 'error' but Grammar.Sets has no afterErr; grammar:\n%s", src)
		}
		if f := compare("afterErr = set(follow error)", o.val[afterErr], got); f != nil {
			return f
		}
		if out.Parser.IsRecovering != (len(o.val[afterErr]) > 0) {
			return failf("recovering-flag", "IsRecovering=%v although follow(error)=%s; grammar:\n%s", out.Parser.IsRecovering, show(o.val[afterErr]), src)
		}
		r.Class("afterErr-checked")
		interesting = true
	}
	if err != nil {
		r.Class("compiled-with-conflicts(sets still compared)")
	} else {
		r.Class("compiled-clean")
	}
	if interesting {
		js, _ := json.Marshal(c)
		r.Nontrivial(string(js))
		if r.WantSample() && len(src) < 900 {
			r.Sample(map[string]any{"grammar": src})
		}
	}
	return nil
}

func seq(lo, hi int) []int {
	var out []int
	for i := lo; i < hi; i++ {
		out = append(out, i)
	}
	return out
}

func TestC15(t *testing.T) {
	p := &prop[c15Case]{
		ID:   "C15",
		Rule: "plain context-free grammars (C01 generator: mutated LALR families and random grammars with nullable and unreachable nonterminals, 1..2 inputs, 15% no-eoi) extended with 0..4 `%generate sN = set(...)` directives, 0..2 nonterminals defined as `X: set(...)` and used in 1..2 rules, an occasional %assert, the 'error' terminal in 1..2 rules, and in a quarter of the cases 1..2 rules starting with a lookahead `(?= A & !B)` (the nonterminals it mentions are reachable through it), and in a third of the cases `%prec t` markers on 1..3 rules (they wrap the rule in the syntax model and must not change any set); set expressions of depth <= 4 over any/first/last/follow/precede of terminals (incl. eoi) and nonterminals, references to named sets (forward, backward, self), |, & and ~. Compiled with compiler.Compile; Grammar.Sets, the rules of set nonterminals and afterErr/IsRecovering are compared with an independent stratified least-fixpoint evaluation over the rules reachable from the first end-of-input input (complement relative to all terminals of the compiled grammar); a complement inside a dependency cycle must be rejected with the documented message and nothing else may be. Non-trivial: a named set that is neither empty nor everything, a non-empty rule set, afterErr, or a rejected complement cycle; distinct by case JSON / source.",
		Assume: []string{"set nonterminals count as non-nullable while sets are resolved (syntax/nullable.go), also when the set turns out empty", "%assert directives are not enforced by the compiler at this commit; they are generated only to make sure they do not disturb resolution"},
		Quick:  16000, Thorough: 600000,
		Gen:   c15Gen,
		Check: c15Check,
	}
	p.run(t)
}
