package props

import (
	"context"
	"fmt"
	"regexp"
	"strings"
	"testing"
	"unicode"

	"github.com/inspirer/textmapper/compiler"
	"github.com/inspirer/textmapper/util/ident"
	"pgregory.net/rapid"

	"verif/harness/internal/ev"
)

// C28 — symbol names map to valid target identifiers.

type c28Case struct {
	Kind  string   `json:"kind"` // "name" | "grammar"
	Name  string   `json:"name,omitempty"`
	Terms []string `json:"terms,omitempty"`
	Nts   []string `json:"nts,omitempty"`
	// IDs gives some terminals an explicit identifier: `name (ID): /re/`.
	IDs map[int]string `json:"ids,omitempty"`
	// Feat: symbols the compiler derives itself, bit 0 `T?`, 1 a group list `(T U | T)+`, 2 a
	// mid-rule action, 3 `T+`, all in the first nonterminal's rule; Tmpl: a templated nonterminal
	// `<base><F>` used as `<base><+F>` (its instance is called <base>_<F>).
	Feat int       `json:"feat,omitempty"`
	Tmpl [2]string `json:"tmpl,omitempty"`
	Flex bool      `json:"flex,omitempty"` // cc target with flexMode = true (its own lexer declarations path)
}

var c28Ident = regexp.MustCompile(`^[A-Za-z_][A-Za-z0-9_]*$`)

// tm lexer: ID: /[a-zA-Z_]([a-zA-Z_\-0-9]*[a-zA-Z_0-9])?/
var c28IDRe = regexp.MustCompile(`^[a-zA-Z_]([a-zA-Z_\-0-9]*[a-zA-Z_0-9])?$`)

// words that the tm grammar treats as hard keywords (cannot be used as symbol names).
var c28Reserved = map[string]bool{"as": true, "false": true, "import": true, "separator": true, "set": true, "true": true, "error": true, "eoi": true, "invalid_token": true}

func c28GenID(t *rapid.T, label string) string {
	first := "abzABZ_xq"
	mid := "abzABZ_-019xq"
	last := "abzABZ_019xq"
	n := rapid.IntRange(1, 7).Draw(t, label+"len")
	var sb strings.Builder
	for i := 0; i < n; i++ {
		set := mid
		if i == 0 {
			set = first
		} else if i == n-1 {
			set = last
		}
		sb.WriteByte(set[rapid.IntRange(0, len(set)-1).Draw(t, label+"ch")])
	}
	return sb.String()
}

var c28QuotedAtoms = []string{
	"a", "b", "Z", "A", "0", "7", "_", "+", "-", "*", "/", "<", ">", "=", "!", "(", ")", "{", "}", "[", "]", " ", ".", ",", ";", ":", "?", "@", "#", "$", "%", "^", "&", "|", "~", "`", "\"", "\t", "\x7f", "\x01",
	`\'`, `\\`, `\n`, `\a`, `\+`, `\_`, `\0`,
	"é", "ж", "中", "😀", " ", " ",
}

func c28GenQuoted(t *rapid.T, label string) string {
	if rapid.IntRange(0, 7).Draw(t, label+"dq") == 0 {
		// the double-quoted spelling, including the empty name
		return []string{`""`, `"a"`, `"+"`, `"ab"`, `"_"`, `"1"`, `" "`}[rapid.IntRange(0, 6).Draw(t, label+"dqName")]
	}
	n := rapid.IntRange(0, 5).Draw(t, label+"len")
	var sb strings.Builder
	sb.WriteByte('\'')
	for i := 0; i < n; i++ {
		sb.WriteString(c28QuotedAtoms[rapid.IntRange(0, len(c28QuotedAtoms)-1).Draw(t, label+"atom")])
	}
	sb.WriteByte('\'')
	return sb.String()
}

func c28Gen(t *rapid.T) c28Case {
	if rapid.IntRange(0, 9).Draw(t, "kind") < 6 {
		if rapid.Bool().Draw(t, "quoted") {
			return c28Case{Kind: "name", Name: c28GenQuoted(t, "q")}
		}
		return c28Case{Kind: "name", Name: c28GenID(t, "id")}
	}
	c := c28Case{Kind: "grammar"}
	nt := rapid.IntRange(1, 4).Draw(t, "nterms")
	seen := map[string]bool{}
	variant := func(base string) string {
		// derive a colliding spelling
		switch rapid.IntRange(0, 7).Draw(t, "variant") {
		case 5: // the names the compiler derives for `x?`, `x+`, `x*`
			return base + "opt"
		case 6:
			return base + "_list"
		case 7:
			return base + "_optlist"
		case 0:
			return strings.ReplaceAll(base, "-", "_")
		case 1:
			return strings.ReplaceAll(base, "_", "-")
		case 2:
			return strings.ToUpper(base)
		case 3:
			return strings.ToLower(base)
		default:
			if strings.HasPrefix(base, "'") && len(base) == 3 {
				r := rune(base[1])
				for k, v := range map[rune]string{'+': "plus", '-': "minus", '*': "mult", '(': "lparen"} {
					if k == r {
						return v
					}
				}
			}
			return base + "_"
		}
	}
	for i := 0; i < nt; i++ {
		var name string
		if len(c.Terms) > 0 && rapid.IntRange(0, 2).Draw(t, "collide") == 0 {
			name = variant(c.Terms[rapid.IntRange(0, len(c.Terms)-1).Draw(t, "of")])
			if !strings.HasPrefix(name, "'") && !c28IDRe.MatchString(name) {
				name = c28GenID(t, "tid")
			}
		} else if rapid.Bool().Draw(t, "tq") {
			name = c28GenQuoted(t, "tq")
		} else {
			name = c28GenID(t, "tid")
		}
		if seen[name] || c28Reserved[name] {
			continue
		}
		seen[name] = true
		c.Terms = append(c.Terms, name)
	}
	// explicit identifiers: the one another terminal gets automatically (a collision the compiler
	// has to report), the same in another case, or a fresh one
	for i := range c.Terms {
		if i == 0 || rapid.IntRange(0, 3).Draw(t, "explicitID") != 0 {
			continue
		}
		other := ident.Produce(c.Terms[rapid.IntRange(0, i-1).Draw(t, "idOf")], ident.UpperCase)
		var id string
		switch rapid.IntRange(0, 5).Draw(t, "idKind") {
		case 5: // the identifier of a built-in terminal
			id = []string{"EOI", "INVALID_TOKEN", "ERROR", "eoi", "Eoi"}[rapid.IntRange(0, 4).Draw(t, "builtinID")]
		case 0:
			id = other
		case 1:
			id = strings.ToLower(other)
		case 3: // the ID syntax admits inner dashes: upper-case and lower-case spellings
			id = fmt.Sprintf("ID-%d", i)
		case 4:
			id = other + "-x"
		default:
			id = fmt.Sprintf("ID%d", i)
		}
		if c28IDRe.MatchString(id) && !c28Reserved[id] {
			if c.IDs == nil {
				c.IDs = map[int]string{}
			}
			c.IDs[i] = id
		}
	}
	if len(c.Terms) == 0 {
		c.Terms = []string{"tok"}
		seen["tok"] = true
	}
	nn := rapid.IntRange(1, 3).Draw(t, "nnts")
	for i := 0; i < nn; i++ {
		var name string
		all := append(append([]string(nil), c.Terms...), c.Nts...)
		if rapid.IntRange(0, 2).Draw(t, "ncollide") == 0 {
			name = variant(all[rapid.IntRange(0, len(all)-1).Draw(t, "nof")])
			if !c28IDRe.MatchString(name) {
				name = c28GenID(t, "nid")
			}
		} else {
			name = c28GenID(t, "nid")
		}
		if seen[name] || c28Reserved[name] {
			continue
		}
		seen[name] = true
		c.Nts = append(c.Nts, name)
	}
	if len(c.Nts) == 0 {
		for _, cand := range []string{"start", "start2", "start3"} {
			if !seen[cand] {
				c.Nts = []string{cand}
				break
			}
		}
	}
	c.Flex = rapid.IntRange(0, 4).Draw(t, "flex") == 0
	// derived symbols
	if rapid.Bool().Draw(t, "derived") {
		c.Feat = rapid.IntRange(1, 15).Draw(t, "feat")
	}
	if rapid.IntRange(0, 2).Draw(t, "template") == 0 {
		// the instance name <base>_<F>: from a terminal spelled <base><f> (same identifier), or fresh
		base, flag := "q", "B"
		var plain []string
		for _, tn := range c.Terms {
			if c28IDRe.MatchString(tn) && len(tn) >= 2 && !strings.ContainsAny(tn, "-_") {
				plain = append(plain, tn)
			}
		}
		if len(plain) > 0 && rapid.Bool().Draw(t, "tmplCollides") {
			tn := plain[rapid.IntRange(0, len(plain)-1).Draw(t, "tmplOf")]
			base, flag = tn[:len(tn)-1], strings.ToUpper(tn[len(tn)-1:])
		}
		if c28IDRe.MatchString(base) && c28Ident.MatchString(flag) && !seen[base] && !c28Reserved[base] && flag[0] >= 'A' && flag[0] <= 'Z' {
			c.Tmpl = [2]string{base, flag}
		}
	}
	return c
}

func c28CheckID(name, id string, style ident.Style) *Failure {
	cls := c28NameClass(name)
	if id == "" {
		return failf("produce-empty:"+cls, "ident.Produce(%q, style %d) returned the empty string", name, style)
	}
	if !c28Ident.MatchString(id) || !ident.IsValid(id) {
		return failf("produce-invalid:"+cls, "ident.Produce(%q, style %d) = %q is not a valid identifier", name, style, id)
	}
	switch style {
	case ident.UpperCase, ident.UpperUnderscores:
		if strings.IndexFunc(id, unicode.IsLower) >= 0 {
			return failf("produce-casing:"+cls, "ident.Produce(%q, upper style %d) = %q contains lower-case letters", name, style, id)
		}
	case ident.CamelCase:
		if unicode.IsLower(rune(id[0])) {
			return failf("produce-casing:"+cls, "ident.Produce(%q, CamelCase) = %q starts with a lower-case letter", name, id)
		}
	case ident.CamelLower:
		if unicode.IsUpper(rune(id[0])) {
			return failf("produce-casing:"+cls, "ident.Produce(%q, CamelLower) = %q starts with an upper-case letter", name, id)
		}
	}
	return nil
}

func c28NameClass(name string) string {
	switch {
	case name == "''":
		return "empty-quoted"
	case strings.HasPrefix(name, "'"):
		return "quoted"
	case strings.Trim(name, "_-") == "":
		return "underscores-only"
	default:
		return "id"
	}
}

func c28Grammar(c c28Case) string {
	var sb strings.Builder
	if c.Flex {
		sb.WriteString("language g(cc);\n\nnamespace = \"g\"\nflexMode = true\n\n:: lexer\n\n")
	} else {
		sb.WriteString("language g(go);\n\n:: lexer\n\n")
	}
	for i, tname := range c.Terms {
		if id, ok := c.IDs[i]; ok {
			fmt.Fprintf(&sb, "%s (%s): /%c/\n", tname, id, 'a'+i)
			continue
		}
		fmt.Fprintf(&sb, "%s: /%c/\n", tname, 'a'+i)
	}
	sb.WriteString("\n:: parser\n\n")
	if c.Tmpl[0] != "" {
		fmt.Fprintf(&sb, "%%flag %s;\n\n", c.Tmpl[1])
	}
	if len(c.Nts) > 0 {
		fmt.Fprintf(&sb, "%%input %s;\n\n", c.Nts[0])
	}
	feat := c.Feat
	if len(c.Terms) < 2 {
		feat = 0 // the feature rule needs two different terminals to stay unambiguous
	}
	for i, nt := range c.Nts {
		fmt.Fprintf(&sb, "%s:", nt)
		for _, tname := range c.Terms {
			sb.WriteString(" " + tname)
		}
		if i+1 < len(c.Nts) {
			sb.WriteString(" " + c.Nts[i+1])
		} else {
			if c.Tmpl[0] != "" {
				fmt.Fprintf(&sb, " %s<+%s>", c.Tmpl[0], c.Tmpl[1])
			}
			if feat != 0 {
				sb.WriteString(" zfeat")
			}
		}
		sb.WriteString(";\n")
	}
	if c.Tmpl[0] != "" {
		fmt.Fprintf(&sb, "%s<%s>: [%s] %s | [!%s] %s %s;\n", c.Tmpl[0], c.Tmpl[1], c.Tmpl[1], c.Terms[0], c.Tmpl[1], c.Terms[0], c.Terms[0])
	}
	if feat != 0 {
		t0, t1 := c.Terms[0], c.Terms[1]
		sb.WriteString("zfeat:")
		if feat&1 != 0 {
			sb.WriteString(" " + t0 + "?")
		}
		sb.WriteString(" " + t1)
		if feat&2 != 0 {
			fmt.Fprintf(&sb, " (%s %s | %s %s)+", t0, t1, t0, t0)
		}
		if feat&4 != 0 {
			sb.WriteString(" { _ = 1 }")
		}
		sb.WriteString(" " + t1)
		if feat&8 != 0 {
			sb.WriteString("+")
		}
		sb.WriteString(";\n")
	}
	return sb.String()
}

func c28Check(c c28Case, r *ev.Recorder) *Failure {
	switch c.Kind {
	case "name":
		for st := ident.CamelCase; st <= ident.UpperUnderscores; st++ {
			r.Eval(1)
			id := ident.Produce(c.Name, st)
			if f := c28CheckID(c.Name, id, st); f != nil {
				return f
			}
		}
		cls := c28NameClass(c.Name)
		r.Class("name:" + cls)
		if cls == "quoted" && len(c.Name) > 3 || cls == "id" && strings.ContainsAny(c.Name, "_-0123456789") {
			r.Nontrivial(c.Name)
			if r.WantSample() {
				r.Sample(map[string]any{"name": c.Name, "UpperCase": ident.Produce(c.Name, ident.UpperCase), "CamelCase": ident.Produce(c.Name, ident.CamelCase)})
			}
		}
		return nil
	case "grammar":
		src := c28Grammar(c)
		g, err := compiler.Compile(context.Background(), "g.tm", src, compiler.Params{CheckOnly: true})
		r.Eval(1)
		if err != nil {
			msg := err.Error()
			switch {
			case strings.Contains(msg, "get the same ID"):
				r.Class("grammar:duplicate-id-reported")
				r.Nontrivial(src)
			case strings.Contains(msg, "syntax error"):
				// a generated spelling the tm parser does not admit: outside the domain
				r.Excluded("grammar-not-admitted-by-tm-syntax")
			default:
				r.Class("grammar:other-error")
				if i := strings.Index(msg, ": "); i > 0 {
					r.Class("grammar:other-error:" + firstWords(msg[i+2:], 4))
				}
			}
			return nil
		}
		if g == nil {
			return nil
		}
		r.Class("grammar:accepted")
		byID := map[string]string{}
		for _, s := range g.Syms {
			if s.ID == "" {
				return failf("grammar-empty-id:"+c28NameClass(s.Name), "symbol %q got an empty identifier and the compiler reported no error; grammar:\n%s", s.Name, src)
			}
			if !c28Ident.MatchString(s.ID) {
				return failf("grammar-invalid-id:"+c28NameClass(s.Name), "symbol %q got the invalid identifier %q; grammar:\n%s", s.Name, s.ID, src)
			}
			// (two entries of Grammar.Syms are two distinct symbols, also when they carry one name)
			if prev, ok := byID[s.ID]; ok {
				return failf("grammar-duplicate-id-not-reported", "symbols %q and %q both get the identifier %q but the compiler reported no error; grammar:\n%s", prev, s.Name, s.ID, src)
			}
			byID[s.ID] = s.Name
		}
		if len(c.Terms)+len(c.Nts) >= 3 {
			r.Nontrivial(src)
			if r.WantSample() {
				ids := map[string]string{}
				for _, s := range g.Syms {
					ids[s.Name] = s.ID
				}
				r.Sample(map[string]any{"grammar": src, "ids": ids})
			}
		}
	}
	return nil
}

func TestC28(t *testing.T) {
	p := &prop[c28Case]{
		ID:   "C28",
		Rule: "60% single names: identifiers matching the tm lexer's ID rule (letters, digits, '_' and inner '-', 1..7 chars) or quoted ids '...' of 0..5 atoms (ASCII punctuation, letters, digits, control chars, backslash escapes, non-ASCII BMP and astral runes), each converted with all four ident styles and checked to be non-empty, ASCII [A-Za-z_][A-Za-z0-9_]*, ident.IsValid and in the requested casing; 40% grammars declaring 1..4 terminals and 1..3 nonterminals where names are derived from each other to collide ('-' vs '_', case variants, '+' vs plus, the derived spellings xopt / x_list / x_optlist), half of them with symbols the compiler derives itself (an optional terminal, a group list, a mid-rule action, a `+` list in one rule; a templated nonterminal whose instance name base_F is spelled like a terminal), a quarter of the terminals with an explicit identifier (another terminal's, in lower case, with an inner dash, or the identifier of eoi / invalid_token / error), an eighth of the quoted names in double quotes (incl. the empty name), a fifth of the grammars for the cc target with flexMode, compiled with compiler.Compile: accepted grammars must give every symbol a non-empty valid identifier and pairwise distinct identifiers. Non-trivial: quoted name with >=2 atoms or id with '_', '-' or a digit; grammar with >=3 symbols or a reported collision. Distinct by name / grammar text.",
		Quick: 100000, Thorough: 6000000,
		Gen:   c28Gen,
		Check: c28Check,
		Pre: func(r *ev.Recorder, run func(c c28Case) *Failure) *Failure {
			if s, _ := shard(); s != 0 {
				return nil
			}
			// all IDs of length <= 3 over a reduced alphabet, and all quoted ids of one atom
			alpha := "aA_-0"
			cnt := 0
			var rec func(prefix string) *Failure
			rec = func(prefix string) *Failure {
				if prefix != "" && c28IDRe.MatchString(prefix) {
					cnt++
					if f := run(c28Case{Kind: "name", Name: prefix}); f != nil {
						return f
					}
				}
				if len(prefix) == 3 {
					return nil
				}
				for i := 0; i < len(alpha); i++ {
					if f := rec(prefix + string(alpha[i])); f != nil {
						return f
					}
				}
				return nil
			}
			if f := rec(""); f != nil {
				return f
			}
			for _, a := range c28QuotedAtoms {
				cnt++
				if f := run(c28Case{Kind: "name", Name: "'" + a + "'"}); f != nil {
					return f
				}
			}
			cnt++
			if f := run(c28Case{Kind: "name", Name: "''"}); f != nil {
				return f
			}
			r.AddExtra("exhaustive_short_names", int64(cnt))
			return nil
		},
	}
	p.run(t)
}
