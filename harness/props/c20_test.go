package props

import (
	"context"
	"fmt"
	"strings"
	"testing"
	"time"

	"verif/harness/internal/ev"
)

// C20 — parse events always form a well-nested tree (shipped parsers here, generated ones in
// TestC20B). Oracle: interval-nesting invariants over the reported events and a validity
// predicate over the tree the shipped ast.Parse builds from them.

// spRun executes the parser with a watchdog context; hung reports that the parse did not
// return by itself within 20 s.
func spRun(sp *shippedParser, c spCase) (o spOutcome, hung bool) {
	ctx, cancel := context.WithTimeout(context.Background(), 20*time.Second)
	defer cancel()
	done := make(chan spOutcome, 1)
	go func() { done <- sp.parse(ctx, c.Entry, string(c.Src), c.Stop, nil) }()
	select {
	case o = <-done:
		if ctx.Err() != nil {
			return o, true
		}
		return o, false
	case <-time.After(30 * time.Second):
		return o, true
	}
}

func c20Check(c spCase, r *ev.Recorder) *Failure {
	sp := shippedByName(c.Parser)
	if sp == nil || c.Entry >= len(sp.entries) {
		return nil
	}
	src := string(c.Src)
	o, hung := spRun(sp, c)
	r.Eval(1)
	where := fmt.Sprintf("%s parser, entry %s, input %q", sp.name, sp.entries[c.Entry], src)
	if hung {
		return failf("hang:"+sp.name, "the parse did not return within 20 s: %s", where)
	}
	if msg := checkEventNesting(o.Events, len(src)); msg != "" {
		k := strings.SplitN(msg, "|", 2)
		return failf(k[0]+":"+sp.name, "%s; %s", k[1], where)
	}
	treeChecked := false
	if sp.tree != nil && c.Entry == 0 && c.Stop == 0 {
		tree, err := sp.tree(context.Background(), src)
		if err == nil {
			if o.Err != nil {
				return failf("tree-without-parse:"+sp.name, "ast.Parse succeeds although the parser returned %v; %s", o.Err, where)
			}
			if msg := checkTree(tree, o.Events, true); msg != "" {
				k := strings.SplitN(msg, "|", 2)
				return failf("tree-"+k[0]+":"+sp.name, "%s; %s", k[1], where)
			}
			if tree[0].Off != 0 || tree[0].End != len(src) {
				return failf("tree-root-range:"+sp.name, "the root covers [%d,%d) of %d bytes; %s", tree[0].Off, tree[0].End, len(src), where)
			}
			treeChecked = true
		} else if o.Err == nil {
			return failf("parse-without-tree:"+sp.name, "ast.Parse fails with %v although the parser succeeded; %s", err, where)
		}
	}
	depth := 0
	sample := o.Events
	if len(sample) > 300 {
		sample = sample[:300]
	}
	for _, e := range sample {
		d := 0
		for _, f := range sample {
			if f.Off <= e.Off && e.End <= f.End && (f.Off != e.Off || f.End != e.End) {
				d++
			}
		}
		if d > depth {
			depth = d
		}
	}
	recovered := len(o.Errors) > 0 && len(o.Events) > 0
	if recovered || depth >= 3 {
		r.Nontrivial(sp.name + "\x00" + src)
	}
	switch {
	case recovered && treeChecked:
		r.Class(sp.name + ":recovered+tree")
	case recovered:
		r.Class(sp.name + ":recovered")
	case treeChecked:
		r.Class(sp.name + ":valid+tree")
	case o.Err == nil:
		r.Class(sp.name + ":valid")
	default:
		r.Class(sp.name + ":rejected")
	}
	if r.WantSample() && len(src) < 80 && len(o.Events) > 2 {
		r.Sample(map[string]any{"parser": sp.name, "input": src, "events": len(o.Events), "errors": len(o.Errors), "tree_checked": treeChecked})
	}
	return nil
}

func TestC20(t *testing.T) {
	p := &prop[spCase]{
		ID:   "C20",
		Rule: "shipped tm, js, json and test parsers on inputs drawn from a corpus (all .tm/.tmerr/.json files of the repository, windows of the large ones, and every string constant of the parsers' own test tables with markers removed) with 0..4 mutations (delete span, insert dictionary piece, duplicate span, truncate, splice with another entry, replace byte); one case in eight is dictionary/byte soup; any entry point; the error handler continues (or stops at call 1..3). Checked: every event inside [0,len]; no two events partially overlap; a node strictly containing another is reported after it (empty nodes on a container's boundary are not 'strictly contained'); for tm and js the tree of ast.Parse has exactly the reported nodes plus the file root, children inside parents, siblings ordered and non-overlapping, and no reported node fits strictly between a non-empty node and its parent. Non-trivial: an input on which recovery happened and events were reported, or whose events nest at least 3 deep; distinct by (parser, input).",
		Assume: []string{"the placement of empty nodes and of nodes with identical ranges is not asserted beyond containment and sibling order (the property's 'smallest container' is ambiguous there)"},
		Quick:  160000, Thorough: 3000000,
		Gen:   spGen(nil),
		Check: c20Check,
	}
	p.run(t)
}
