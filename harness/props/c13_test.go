package props

import (
	"context"
	"encoding/json"
	"fmt"
	"regexp"
	"strings"
	"testing"

	"github.com/inspirer/textmapper/compiler"
	"github.com/inspirer/textmapper/grammar"
	"pgregory.net/rapid"

	"verif/harness/internal/ev"
	"verif/harness/internal/oracle"
)

// C13 — desugaring extended notation preserves the language.
// Oracle: bounded language enumeration (internal/oracle/lang.go) of the extended-notation spec by
// structural recursion, versus the same enumeration over grammar.Parser.Rules.

type c13Case struct {
	G egSpec `json:"g"`
	// CC: compile for the C++ target with typed symbols (lists of typed references are expanded
	// with list-building commands there); only grammar.Parser.Rules is read.
	CC bool `json:"cc,omitempty"`
	// OptNames: optional references to nonterminals are written `Xopt` instead of `X?`.
	OptNames bool `json:"optnames,omitempty"`
}

// egEnrich adds sets, lookahead markers, state markers, mid-rule commands, aliases, recursion and
// repeated sub-expressions to a generated spec.
func egEnrich(t *rapid.T, g *egSpec) {
	var alts []*egAlt
	var collect func(a *egAlt)
	collect = func(a *egAlt) {
		alts = append(alts, a)
		for _, p := range a.Parts {
			for _, s := range p.Alts {
				collect(s)
			}
		}
	}
	for _, nt := range g.NTs {
		for _, a := range nt.Alts {
			collect(a)
		}
	}
	n := rapid.IntRange(0, 5).Draw(t, "enrich")
	for i := 0; i < n && len(alts) > 0; i++ {
		a := alts[rapid.IntRange(0, len(alts)-1).Draw(t, "ealt")]
		pos := rapid.IntRange(0, len(a.Parts)).Draw(t, "epos")
		var p *egPart
		switch rapid.IntRange(0, 8).Draw(t, "ekind") {
		case 8: // make the element of some list nullable (all of its parts optional)
			var lists []*egPart
			for _, x := range alts {
				for _, q := range x.Parts {
					if q.K == "list" {
						lists = append(lists, q)
					}
				}
			}
			if len(lists) > 0 {
				l := lists[rapid.IntRange(0, len(lists)-1).Draw(t, "nullList")]
				el := l.Alts[0]
				for pi, q := range el.Parts {
					if q.K == "t" || q.K == "n" {
						el.Parts[pi] = &egPart{K: "opt", Alts: []*egAlt{{Parts: []*egPart{q}}}}
					}
				}
			}
			continue
		case 0, 1:
			p = &egPart{K: "set", Neg: rapid.IntRange(0, 3).Draw(t, "sneg") == 0}
			k := rapid.IntRange(1, 3).Draw(t, "ssize")
			seen := map[int]bool{}
			for j := 0; j < k; j++ {
				x := rapid.IntRange(1, g.T-1).Draw(t, "sterm")
				if !seen[x] {
					seen[x] = true
					p.Set = append(p.Set, x)
				}
			}
		case 2:
			p = &egPart{K: "la", Set: []int{rapid.IntRange(0, len(g.NTs)-1).Draw(t, "lant")}}
			if rapid.Bool().Draw(t, "laneg") {
				p.Set[0] = -1 - p.Set[0]
			}
		case 3:
			p = &egPart{K: "mark", Sym: rapid.IntRange(0, 2).Draw(t, "mark")}
		case 4:
			if pos == 0 {
				pos = len(a.Parts)
			}
			p = &egPart{K: "cmd"}
		case 5: // recursion: reference to any nonterminal (not in the leading position)
			if pos == 0 {
				pos = len(a.Parts)
			}
			p = &egPart{K: "n", Sym: rapid.IntRange(0, len(g.NTs)-1).Draw(t, "recnt")}
		case 6: // repeat an existing list/optional elsewhere (extracted nonterminal reuse)
			var cands []*egPart
			for _, x := range alts {
				for _, q := range x.Parts {
					if q.K == "list" || q.K == "opt" {
						cands = append(cands, q)
					}
				}
			}
			if len(cands) == 0 {
				continue
			}
			orig := cands[rapid.IntRange(0, len(cands)-1).Draw(t, "dup")]
			js, _ := json.Marshal(orig) // deep copy (the copy may be inserted inside the original)
			p = &egPart{}
			json.Unmarshal(js, p)
			// half of the copies differ from the original in one detail that the provisional name
			// of the extracted nonterminal does not show: a two-token separator, the other
			// quantifier, or one more optional symbol in the element
			if p.K == "list" {
				switch rapid.IntRange(0, 5).Draw(t, "dupVariation") {
				case 0:
					orig.Sep, orig.Sep2 = rapid.IntRange(1, g.T-1).Draw(t, "s1"), rapid.IntRange(1, g.T-1).Draw(t, "s2")
					p.Sep, p.Sep2 = orig.Sep2, orig.Sep
					if p.Sep == p.Sep2 {
						p.Sep2 = 1 + p.Sep%(g.T-1)
					}
				case 1:
					p.Plus = !p.Plus
				case 2:
					p.Alts[0].Parts = append(p.Alts[0].Parts, &egPart{K: "opt", Alts: []*egAlt{{Parts: []*egPart{{K: "t", Sym: rapid.IntRange(1, g.T-1).Draw(t, "optT")}}}}})
				}
			}
		case 7: // alias
			if len(a.Parts) > 0 {
				q := a.Parts[rapid.IntRange(0, len(a.Parts)-1).Draw(t, "aliasOf")]
				if q.K == "t" || q.K == "n" {
					q.Name = fmt.Sprintf("al%d", i)
				}
			}
			continue
		}
		a.Parts = append(a.Parts[:pos:pos], append([]*egPart{p}, a.Parts[pos:]...)...)
	}
}

func c13Gen(t *rapid.T) c13Case {
	g := genEG(t, egGenOpts{MaxNT: 4, Terms: rapid.IntRange(2, 5).Draw(t, "terms"), NodePct: 15, Lists: true, MaxDepth: 3, NestedNode: true})
	egEnrich(t, &g)
	if rapid.IntRange(0, 9).Draw(t, "listNameClash") == 0 && len(g.NTs) < 6 {
		// a user nonterminal whose name looks like an extracted list nonterminal
		g.NTs = append(g.NTs, &egNT{Name: "B_list", Alts: []*egAlt{{Parts: []*egPart{{K: "t", Sym: 1}}}}})
	}
	if rapid.IntRange(0, 3).Draw(t, "firstRenamed") == 0 {
		// The first nonterminal gets a name behind every extracted one (`B_list`, `Copt` < `Zz`)
		// and refers to itself, so references to nonterminal #0 have to survive the reordering.
		g.NTs[0].Name = "Zz"
		g.T++
		g.NTs[0].Alts = append(g.NTs[0].Alts, &egAlt{Parts: []*egPart{{K: "t", Sym: g.T - 1}, {K: "n", Sym: 0}, {K: "t", Sym: g.T - 1}}})
	}
	return c13Case{G: g, CC: rapid.IntRange(0, 4).Draw(t, "cc") == 0, OptNames: rapid.IntRange(0, 3).Draw(t, "optNames") == 0}
}

var c13OptRef = regexp.MustCompile(` ([A-Z][a-z]?)\?`)

// egDenote computes Lang<=L of every nonterminal of the spec. term maps a spec terminal to its
// symbol number; universe lists all terminal symbol numbers (for complements).
func egDenote(g *egSpec, term func(t int) int, universe []int, L int) []oracle.LangSet {
	lang := make([]oracle.LangSet, len(g.NTs))
	for i := range lang {
		lang[i] = oracle.LangSet{}
	}
	var alt func(a *egAlt) oracle.LangSet
	part := func(p *egPart) oracle.LangSet {
		switch p.K {
		case "t":
			return oracle.Single(term(p.Sym))
		case "n":
			return lang[p.Sym]
		case "opt":
			r := oracle.Eps()
			r.Union(alt(p.Alts[0]))
			return r
		case "grp":
			r := oracle.LangSet{}
			for _, a := range p.Alts {
				r.Union(alt(a))
			}
			return r
		case "list":
			var sep oracle.LangSet
			if p.Sep != 0 {
				sep = oracle.Single(term(p.Sep))
				if p.Sep2 != 0 {
					sep = oracle.Concat(sep, oracle.Single(term(p.Sep2)), L)
				}
			}
			return oracle.Star(alt(p.Alts[0]), sep, p.Plus, L)
		case "set":
			in := map[int]bool{}
			for _, x := range p.Set {
				in[term(x)] = true
			}
			r := oracle.LangSet{}
			if !p.Neg {
				for s := range in {
					r.Union(oracle.Single(s))
				}
				return r
			}
			for _, s := range universe {
				if !in[s] && s != 0 {
					r.Union(oracle.Single(s))
				}
			}
			return r
		}
		return oracle.Eps() // la, mark, cmd: transparent
	}
	alt = func(a *egAlt) oracle.LangSet {
		cur := oracle.Eps()
		for _, p := range a.Parts {
			cur = oracle.Concat(cur, part(p), L)
			if len(cur) == 0 {
				break
			}
		}
		return cur
	}
	for changed := true; changed; {
		changed = false
		for i, nt := range g.NTs {
			for _, a := range nt.Alts {
				if lang[i].Union(alt(a)) {
					changed = true
				}
			}
		}
	}
	return lang
}

func symString(g *grammar.Grammar, s string) string {
	var parts []string
	for i := 0; i < len(s); i++ {
		parts = append(parts, g.Syms[int(s[i])-1].Name)
	}
	if len(parts) == 0 {
		return "<empty string>"
	}
	return strings.Join(parts, " ")
}

func c13Check(c c13Case, r *ev.Recorder) *Failure {
	g := c.G
	if len(g.NTs) == 0 || g.T < 2 {
		return nil
	}
	src := g.render("g", map[string]string{"eventBased": "true"}, true, "", nil)
	if c.CC {
		src = g.render("g", map[string]string{"namespace": `"g"`, "__termType": " {int}", "__ntType": " {int}"}, true, "", nil)
		src = strings.Replace(src, "package = \"scratch/g\"\n", "", 1)
		src = strings.Replace(src, "language g(go);", "language g(cc);", 1)
	}
	if c.OptNames {
		// `X?` written as `Xopt` (the nonterminal is instantiated on demand by the compiler)
		src = c13OptRef.ReplaceAllString(src, " ${1}opt")
	}
	out, err := compiler.Compile(context.Background(), "g.tm", src, compiler.Params{CheckOnly: false})
	r.Eval(1)
	if out == nil || out.Parser == nil || len(out.Parser.Rules) == 0 {
		if err != nil {
			msg := err.Error()
			if i := strings.Index(msg, ": "); i > 0 {
				msg = msg[i+2:]
			}
			r.Excluded("rejected:" + firstWords(msg, 3))
		}
		return nil
	}
	if err != nil {
		r.Class("compiled-with-conflicts(rules still compared)")
	} else {
		r.Class("compiled-clean")
	}
	// symbol numbers
	termOf := map[string]int{}
	for i := 0; i < out.NumTokens; i++ {
		termOf[out.Syms[i].Name] = i
	}
	term := func(t int) int { return termOf[egTerm(t)] }
	var universe []int
	for i := 0; i < out.NumTokens; i++ {
		universe = append(universe, i)
	}
	if out.NumTokens > 250 {
		return nil
	}
	L := 5
	if g.T > 4 {
		L = 4
	}
	want := egDenote(&g, term, universe, L)
	// plain rules
	nts := len(out.Syms) - out.NumTokens
	var rules []oracle.CFGRule
	for _, rl := range out.Parser.Rules {
		cr := oracle.CFGRule{LHS: int(rl.LHS)}
		for _, s := range rl.RHS {
			if s.IsStateMarker() {
				continue
			}
			cr.RHS = append(cr.RHS, int(s))
		}
		rules = append(rules, cr)
	}
	got := oracle.PlainLang(out.NumTokens, nts, rules, L)
	ntIndex := map[string]int{}
	for i := out.NumTokens; i < len(out.Syms); i++ {
		ntIndex[out.Syms[i].Name] = i - out.NumTokens
	}
	rich, big := false, false
	for _, in := range g.Inputs {
		name := g.NTs[in.NT].Name
		gi, ok := ntIndex[name]
		if !ok {
			return failf("input-nonterminal-missing", "nonterminal %s is missing from the compiled grammar:\n%s", name, src)
		}
		w, gt := want[in.NT], got[gi]
		if d := oracle.Diff(w, gt, 3); len(d) > 0 {
			return failf("language-lost", "input %s: the extended notation derives [%s] (length <= %d) but the generated plain rules do not; grammar:\n%s", name, symString(out, d[0]), L, src)
		}
		if d := oracle.Diff(gt, w, 3); len(d) > 0 {
			return failf("language-added", "input %s: the generated plain rules derive [%s] (length <= %d) which the extended notation does not denote; grammar:\n%s", name, symString(out, d[0]), L, src)
		}
		if len(w) >= 3 {
			big = true
		}
	}
	// Every other user nonterminal keeps its name in the plain grammar and must keep its language
	// too (no surrounding context is needed to see a difference, so this is the sharper test).
	isInput := map[int]bool{}
	for _, in := range g.Inputs {
		isInput[in.NT] = true
	}
	for i, nt := range g.NTs {
		gi, ok := ntIndex[nt.Name]
		if !ok || isInput[i] {
			continue
		}
		w, gt := want[i], got[gi]
		if d := oracle.Diff(w, gt, 3); len(d) > 0 {
			return failf("language-lost", "nonterminal %s: the extended notation derives [%s] (length <= %d) but the generated plain rules do not; grammar:\n%s", nt.Name, symString(out, d[0]), L, src)
		}
		if d := oracle.Diff(gt, w, 3); len(d) > 0 {
			return failf("language-added", "nonterminal %s: the generated plain rules derive [%s] (length <= %d) which the extended notation does not denote; grammar:\n%s", nt.Name, symString(out, d[0]), L, src)
		}
	}
	var walk func(a *egAlt, depth int)
	walk = func(a *egAlt, depth int) {
		for _, p := range a.Parts {
			if p.K == "list" || depth >= 2 {
				rich = true
			}
			for _, s := range p.Alts {
				walk(s, depth+1)
			}
		}
	}
	for _, nt := range g.NTs {
		for _, a := range nt.Alts {
			walk(a, 0)
		}
	}
	if rich && big {
		js, _ := json.Marshal(g)
		r.Nontrivial(string(js))
		if r.WantSample() {
			r.Sample(map[string]any{"grammar": src, "L": L, "strings_in_first_input": len(want[g.Inputs[0].NT]), "plain_rules": len(rules)})
		}
	}
	return nil
}

func TestC13(t *testing.T) {
	p := &prop[c13Case]{
		ID:   "C13",
		Rule: "(a quarter of the cases: the first nonterminal renamed `Zz` with a self-referring alternative, so that extracted nonterminals are ordered in front of it; a quarter: optional nonterminal references written `Xopt` instead of `X?`) grammars in extended notation (optional parts on references and groups, nested choices up to depth 3, + and * lists over references/sequences/choices with and without separators, nullable elements, lists inside lists), enriched with set(a|b) and set(~(a|eoi)) references, (?= X) and (?= !X) lookahead markers, state markers, mid-rule commands, aliases, arrows, recursion through any nonterminal, the same list/optional expression repeated in several places (extracted nonterminal reuse) and user nonterminals named like extracted ones; rendered to .tm and compiled with compiler.Compile; grammar.Parser.Rules is read even when table construction reports conflicts. For every input nonterminal the set of terminal strings of length <= L (L=5 for <=3 terminals, else 4) denoted by the extended notation (sets = choice of their terminals, markers/lookaheads/commands = empty string) must equal the set derived by the plain rules (least fixpoint enumeration on both sides). Non-trivial: grammar with a list or nesting depth >= 2 and at least 3 strings in the bounded language; distinct by spec JSON.",
		Assume: []string{"right-recursive lists cannot be written in .tm syntax and are not generated", "exact up to the length bound L only"},
		Quick: 9000, Thorough: 120000,
		Gen:   c13Gen,
		Check: c13Check,
	}
	p.run(t)
}
