package props

import (
	"fmt"
	"os"
	"testing"

	"pgregory.net/rapid"

	"verif/harness/internal/batch"
)

// TestDebugC11Rejects prints why generated lexer grammars are rejected (development aid).
func TestDebugC11Rejects(t *testing.T) {
	if os.Getenv("VERIF_DEBUG") == "" {
		t.Skip()
	}
	gen := rapid.Custom(c11Gen)
	counts := map[string]int{}
	for i := 0; i < 200; i++ {
		c := gen.Example(1000 + i)
		u, ok := c11Unit(c, "g")
		if !ok {
			counts["unit-skip"]++
			continue
		}
		res := batch.Generate(&u)
		if res.CompileErr != nil {
			msg := res.CompileErr.Error()
			if len(msg) > 160 {
				msg = msg[:160]
			}
			counts[firstWords(c17Num.ReplaceAllString(msg, "N"), 9)]++
		} else {
			counts["ok"]++
		}
	}
	for k, v := range counts {
		fmt.Println(v, k)
	}
}
