package props

import (
	"context"
	"encoding/json"
	"fmt"
	"os"
	"strings"
	"testing"

	"github.com/inspirer/textmapper/compiler"
	"pgregory.net/rapid"

	"verif/harness/internal/batch"
	"verif/harness/internal/respec"
)

// TestDebugC11Rejects prints why generated lexer grammars are rejected (development aid).
func TestDebugC11Rejects(t *testing.T) {
	if os.Getenv("VERIF_DEBUG") == "" {
		t.Skip()
	}
	gen := rapid.Custom(c11Gen)
	counts := map[string]int{}
	for i := 0; i < 200; i++ {
		c := gen.Example(1000 + i)
		u, ok := c11Unit(c, "g")
		if !ok {
			counts["unit-skip"]++
			continue
		}
		res := batch.Generate(&u)
		if res.CompileErr != nil {
			msg := res.CompileErr.Error()
			if len(msg) > 160 {
				msg = msg[:160]
			}
			counts[firstWords(c17Num.ReplaceAllString(msg, "N"), 9)]++
		} else {
			counts["ok"]++
		}
	}
	for k, v := range counts {
		fmt.Println(v, k)
	}
}

// TestDebugC29S prints what a shipped parser does on a C29 replay case (VERIF_DEBUG_FILE).
func TestDebugC29S(t *testing.T) {
	path := os.Getenv("VERIF_DEBUG_FILE")
	if path == "" {
		t.Skip()
	}
	data, _ := os.ReadFile(path)
	var rf replayFile
	var c c29sCase
	json.Unmarshal(data, &rf)
	json.Unmarshal(rf.Case, &c)
	sp := shippedByName(c.Parser)
	src := c.source()
	ctx, cancel := context.WithCancel(context.Background())
	cancel()
	o := sp.parse(ctx, 0, src, 0, nil)
	fmt.Printf("err=%v events=%d errors=%v\n", o.Err, len(o.Events), o.Errors)
	for i, e := range o.Events {
		if i < 40 || i > len(o.Events)-10 {
			fmt.Printf("  %s [%d,%d)\n", e.Type, e.Off, e.End)
		}
	}
}

func TestDebugC29Units(t *testing.T) {
	if os.Getenv("VERIF_DEBUG") == "" {
		t.Skip()
	}
	for name, u := range c29Units {
		sp := shippedByName(name)
		for _, x := range u.units {
			o := sp.parse(context.Background(), 0, u.head+x+u.tail, 0, nil)
			fmt.Printf("%s %q err=%v handler=%v events=%d\n", name, x, o.Err, o.Errors, len(o.Events))
		}
	}
}

func TestDebugC21Rejects(t *testing.T) {
	if os.Getenv("VERIF_DEBUG") == "" {
		t.Skip()
	}
	gen := rapid.Custom(c21Gen)
	counts := map[string]int{}
	for i := 0; i < 300; i++ {
		c := gen.Example(1000 + i)
		u := batch.Unit{Name: "g", TM: c.render("g"), Adapter: typedAdapter, RunPkg: "ast"}
		res := batch.Generate(&u)
		key := "ok"
		if res.CompileErr != nil {
			msg := res.CompileErr.Error()
			if i := strings.Index(msg, ": "); i > 0 {
				msg = msg[i+2:]
			}
			key = firstWords(c17Num.ReplaceAllString(msg, "N"), 7)
		} else if res.GenErr != nil {
			key = "generr " + firstWords(res.GenErr.Error(), 8)
		}
		if len(c.Interfaces) > 0 {
			key = "[iface] " + key
		}
		counts[key]++
	}
	for k, v := range counts {
		fmt.Println(v, k)
	}
}

func TestDebugC16Case(t *testing.T) {
	if os.Getenv("VERIF_DEBUG_IDX") == "" {
		t.Skip()
	}
	var idx int
	fmt.Sscan(os.Getenv("VERIF_DEBUG_IDX"), &idx)
	c := rapid.Custom(c16GenCase).Example(1000003 + idx)
	u := batch.Unit{Name: "g", TM: c.render("g"), Adapter: actionAdapter}
	fmt.Println(u.TM)
	res := batch.Generate(&u)
	fmt.Println("compile:", res.CompileErr, "gen:", res.GenErr)
	for i, l := range strings.Split(res.Files["parser.go"], "\n") {
		if strings.Contains(l, "verifObs") || strings.Contains(l, "case ") {
			fmt.Printf("%d: %s\n", i+1, l)
		}
	}
}

func TestDebugC11Viable(t *testing.T) {
	path := os.Getenv("VERIF_DEBUG_FILE")
	if path == "" {
		t.Skip()
	}
	data, _ := os.ReadFile(path)
	var rf replayFile
	var c c11Case
	json.Unmarshal(data, &rf)
	json.Unmarshal(rf.Case, &c)
	in := os.Getenv("VERIF_DEBUG_INPUT")
	for i := range c.Rules {
		r := &c.Rules[i]
		env := respec.Env{Bytes: c.bytes(), Fold: c.fold(), RefFold: c.fold(), Refs: c.Named}
		for off := 0; off < len(in); off++ {
			v := respec.ViablePrefix([]*respec.Node{r.node()}, []respec.Env{env}, in[off:], c.bytes())
			lens, _ := respec.MatchLens(r.node(), env, in[off:])
			fmt.Printf("rule %s at %d: viable=%d match=%v\n", r.Token, off, v, lens)
		}
	}
}

// TestDebugSets compiles VERIF_DEBUG_FILE and prints Grammar.Sets.
func TestDebugSets(t *testing.T) {
	path := os.Getenv("VERIF_DEBUG_FILE")
	if path == "" || os.Getenv("VERIF_DEBUG_SETS") == "" {
		t.Skip("debug helper")
	}
	data, _ := os.ReadFile(path)
	out, err := compiler.Compile(context.Background(), "g.tm", string(data), compiler.Params{})
	fmt.Println("ERR:", err != nil)
	if out != nil {
		for _, s := range out.Sets {
			var names []string
			for _, x := range s.Terminals {
				names = append(names, out.Syms[x].Name)
			}
			fmt.Println(s.Name, names)
		}
	}
}
