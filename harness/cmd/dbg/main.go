// Command dbg prints Textmapper's tables and an interpreter trace for a grammar (debug aid).
package main

import (
	"encoding/json"
	"fmt"
	"os"
	"strconv"

	"github.com/inspirer/textmapper/lalr"
	"github.com/inspirer/textmapper/status"

	"verif/harness/internal/tabint"
)

type rule struct {
	L int   `json:"l"`
	R []int `json:"r"`
}
type spec struct {
	T      int    `json:"t"`
	N      int    `json:"n"`
	Rules  []rule `json:"rules"`
	Inputs []struct {
		NT  int  `json:"nt"`
		Eoi bool `json:"eoi"`
	} `json:"inputs"`
}
type node int

func (n node) SourceRange() status.SourceRange { return status.SourceRange{Filename: "g", Line: int(n)} }

func main() {
	var c struct {
		G        spec `json:"g"`
		Optimize bool `json:"optimize"`
		DefRed   bool `json:"default_reduce"`
		Minimize bool `json:"minimize"`
	}
	if err := json.Unmarshal([]byte(os.Args[1]), &c); err != nil {
		panic(err)
	}
	g := &lalr.Grammar{Terminals: c.G.T, Origin: node(0)}
	for i := 0; i < c.G.T+c.G.N; i++ {
		g.Symbols = append(g.Symbols, "s"+strconv.Itoa(i))
	}
	for _, in := range c.G.Inputs {
		g.Inputs = append(g.Inputs, lalr.Input{Nonterminal: lalr.Sym(in.NT), Eoi: in.Eoi})
	}
	for i, r := range c.G.Rules {
		lr := lalr.Rule{LHS: lalr.Sym(r.L), Type: -1, Origin: node(i + 1)}
		for _, s := range r.R {
			lr.RHS = append(lr.RHS, lalr.Sym(s))
		}
		g.Rules = append(g.Rules, lr)
	}
	t, err := lalr.Compile(g, lalr.Options{Optimize: c.Optimize, DefaultReduce: c.DefRed, MinimizeDFA: c.Minimize, Debug: true})
	fmt.Println("err:", err)
	fmt.Println("Action", t.Action)
	fmt.Println("Lalr", t.Lalr)
	fmt.Println("Goto", t.Goto)
	fmt.Println("FromTo", t.FromTo)
	fmt.Println("Final", t.FinalStates, "RuleLen", t.RuleLen, "RuleSym", t.RuleSymbol)
	if t.Optimized != nil {
		fmt.Printf("Opt %+v\n", *t.Optimized)
	}
	for i, d := range t.DebugInfo {
		fmt.Printf("--- %d\n%s\n", i, d)
	}
	var toks []int
	for _, a := range os.Args[2:] {
		v, _ := strconv.Atoi(a)
		toks = append(toks, v)
	}
	for _, opt := range []bool{false, true} {
		if opt && t.Optimized == nil {
			continue
		}
		res := tabint.Run(t, tabint.Opts{Optimized: opt, Trace: true, NumRules: len(g.Rules)}, 0, toks)
		fmt.Printf("opt=%v accept=%v err=%d states=%v events=", opt, res.Accept, res.ErrTok, res.States)
		for _, e := range res.Events {
			fmt.Printf("%c(%d,%d) ", e.Kind, e.A, e.B)
		}
		fmt.Println(res.Broken)
	}
}
