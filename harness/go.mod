module verif/harness

go 1.25

require (
	github.com/inspirer/textmapper v0.0.0
	pgregory.net/rapid v1.3.0
)

replace github.com/inspirer/textmapper => /repo
