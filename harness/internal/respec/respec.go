// Package respec is a specification-level model of Textmapper's regular expression notation:
// an AST that is rendered to pattern text (conservatively: every metacharacter escaped) and a
// denotational matcher / set-membership function written against Go's unicode tables. It shares
// no code with lex/regexp.go or lex/charset.go.
package respec

import (
	"fmt"
	"strings"
	"unicode"
	"unicode/utf8"
)

// Node is a regular expression.
type Node struct {
	Op   string  `json:"op"` // lit | class | dot | cat | alt | rep | ref | grp | esc
	R    rune    `json:"r,omitempty"`
	Enc  string  `json:"enc,omitempty"` // lit rendering: "" raw/backslash, x, u, U, xb ({}), ub, o (octal), c (\n \t ...)
	Cls  *Class  `json:"cls,omitempty"`
	Sub  []*Node `json:"sub,omitempty"`
	Min  int     `json:"min,omitempty"`
	Max  int     `json:"max,omitempty"` // -1 unbounded
	Name string  `json:"name,omitempty"` // ref: named pattern; esc: d D w W s S p{X} P{X} pL
	Fold int     `json:"fold,omitempty"` // grp: 0 plain, 1 (?i:..), 2 (?-i:..)
}

// Class is a bracket expression.
type Class struct {
	Neg   bool     `json:"neg,omitempty"`
	Items []Item   `json:"items"`
	Minus []*Class `json:"minus,omitempty"` // -[...]
}

// Item is a member of a class.
type Item struct {
	K     string `json:"k"` // r | rng | esc
	Lo    rune   `json:"lo,omitempty"`
	Hi    rune   `json:"hi,omitempty"`
	Esc   string `json:"esc,omitempty"` // d D w W s S p{X} P{X}
	Minus bool   `json:"minus,omitempty"` // written as -\p{..}: subtracted
	Enc   string `json:"enc,omitempty"`
}

// Env is the evaluation environment.
type Env struct {
	Fold  bool
	Bytes bool
	Refs  map[string]*Node
	// RefFold is the case-folding state named patterns are evaluated in: they are separate
	// regular expressions, a (?i) of the referring pattern does not reach into them.
	RefFold bool
}

func (e Env) maxRune() rune {
	if e.Bytes {
		return 0xff
	}
	return unicode.MaxRune
}

// ---------- rendering

func renderRune(r rune, enc string, inClass bool) string {
	switch enc {
	case "x":
		if r <= 0xff {
			return fmt.Sprintf(`\x%02x`, r)
		}
	case "u":
		if r <= 0xffff {
			return fmt.Sprintf(`\u%04X`, r)
		}
	case "U":
		return fmt.Sprintf(`\U%08x`, r)
	case "xb":
		return fmt.Sprintf(`\x{%x}`, r)
	case "ub":
		return fmt.Sprintf(`\u{%X}`, r)
	case "o":
		if r <= 0xff {
			return fmt.Sprintf(`\%03o`, r)
		}
	case "c":
		switch r {
		case '\a':
			return `\a`
		case '\f':
			return `\f`
		case '\n':
			return `\n`
		case '\r':
			return `\r`
		case '\t':
			return `\t`
		case '\v':
			return `\v`
		}
	}
	switch {
	case r < 0x20 || r == 0x7f:
		return fmt.Sprintf(`\x%02x`, r)
	case r >= 'a' && r <= 'z' || r >= 'A' && r <= 'Z' || r >= '0' && r <= '9' || r == ' ':
		return string(r)
	case r == '_':
		return "_"
	case r < 0x80:
		return `\` + string(r)
	case r >= 0xd800 && r <= 0xdfff || r > unicode.MaxRune:
		return fmt.Sprintf(`\U%08x`, r)
	default:
		return string(r)
	}
}

func renderEsc(name string) string { return `\` + name }

// RenderClass renders a bracket expression.
func RenderClass(c *Class) string {
	var sb strings.Builder
	sb.WriteByte('[')
	if c.Neg {
		sb.WriteByte('^')
	}
	// Positive items first; a subtraction ("-[...]" or "-\p{..}") is only unambiguous after a range
	// or a multi-rune escape (as in the documented [a-z-[aeiou]]), so when subtractions follow, the
	// last positive item is moved/rewritten accordingly (a single rune x becomes the range x-x).
	var pos, neg []Item
	for _, it := range c.Items {
		if it.Minus {
			neg = append(neg, it)
		} else {
			pos = append(pos, it)
		}
	}
	if (len(neg) > 0 || len(c.Minus) > 0) && len(pos) > 0 {
		last := -1
		for i, it := range pos {
			if it.K != "r" {
				last = i
			}
		}
		if last >= 0 {
			it := pos[last]
			pos = append(append(pos[:last:last], pos[last+1:]...), it)
		} else {
			it := pos[len(pos)-1]
			pos[len(pos)-1] = Item{K: "rng", Lo: it.Lo, Hi: it.Lo, Enc: it.Enc}
		}
	}
	for _, it := range append(pos, neg...) {
		if it.Minus {
			sb.WriteByte('-')
		}
		switch it.K {
		case "r":
			sb.WriteString(renderRune(it.Lo, it.Enc, true))
		case "rng":
			sb.WriteString(renderRune(it.Lo, it.Enc, true))
			sb.WriteByte('-')
			sb.WriteString(renderRune(it.Hi, it.Enc, true))
		case "esc":
			sb.WriteString(renderEsc(it.Esc))
		}
	}
	for _, m := range c.Minus {
		sb.WriteByte('-')
		sb.WriteString(RenderClass(m))
	}
	sb.WriteByte(']')
	return sb.String()
}

// Render produces the pattern text.
func Render(n *Node) string {
	switch n.Op {
	case "lit":
		return renderRune(n.R, n.Enc, false)
	case "esc":
		return renderEsc(n.Name)
	case "class":
		return RenderClass(n.Cls)
	case "dot":
		return "."
	case "cat":
		var sb strings.Builder
		for _, s := range n.Sub {
			if s.Op == "alt" {
				sb.WriteString("(" + Render(s) + ")")
			} else {
				sb.WriteString(Render(s))
			}
		}
		return sb.String()
	case "alt":
		var parts []string
		for _, s := range n.Sub {
			parts = append(parts, Render(s))
		}
		return strings.Join(parts, "|")
	case "rep":
		inner := Render(n.Sub[0])
		switch n.Sub[0].Op {
		case "lit", "class", "dot", "esc", "ref", "grp":
		default:
			inner = "(" + inner + ")"
		}
		switch {
		case n.Min == 0 && n.Max == -1:
			return inner + "*"
		case n.Min == 1 && n.Max == -1:
			return inner + "+"
		case n.Min == 0 && n.Max == 1:
			return inner + "?"
		case n.Max == n.Min:
			return fmt.Sprintf("%s{%d}", inner, n.Min)
		case n.Max == -1:
			return fmt.Sprintf("%s{%d,}", inner, n.Min)
		default:
			return fmt.Sprintf("%s{%d,%d}", inner, n.Min, n.Max)
		}
	case "ref":
		return "{" + n.Name + "}"
	case "grp":
		inner := Render(n.Sub[0])
		switch n.Fold {
		case 1:
			return "(?i:" + inner + ")"
		case 2:
			return "(?-i:" + inner + ")"
		}
		return "(" + inner + ")"
	}
	return ""
}

// ---------- denotation

func orbit(r rune) []rune {
	ret := []rune{r}
	for f := unicode.SimpleFold(r); f != r; f = unicode.SimpleFold(f) {
		ret = append(ret, f)
	}
	return ret
}

func inTable(r rune, name string) (bool, bool) {
	switch name {
	case "Any":
		return true, true
	case "Ascii":
		return r <= 0x7f, true
	}
	if t := unicode.Categories[name]; t != nil {
		return unicode.Is(t, r), true
	}
	if t := unicode.Scripts[name]; t != nil {
		return unicode.Is(t, r), true
	}
	if t := unicode.Properties[name]; t != nil {
		return unicode.Is(t, r), true
	}
	return false, false
}

// EscContains evaluates \d \D \w \W \s \S \p{X} \P{X} \p{^X} \pL for one code point / byte.
func EscContains(esc string, r rune, e Env) bool {
	switch esc {
	case "d":
		return r >= '0' && r <= '9'
	case "D":
		return !(r >= '0' && r <= '9')
	case "w":
		return r >= '0' && r <= '9' || r >= 'A' && r <= 'Z' || r == '_' || r >= 'a' && r <= 'z'
	case "W":
		return !(r >= '0' && r <= '9' || r >= 'A' && r <= 'Z' || r == '_' || r >= 'a' && r <= 'z')
	case "s":
		return r == '\t' || r == '\n' || r == '\v' || r == '\f' || r == '\r' || r == ' '
	case "S":
		return !(r == '\t' || r == '\n' || r == '\v' || r == '\f' || r == '\r' || r == ' ')
	}
	neg := false
	name := ""
	switch {
	case strings.HasPrefix(esc, "p{^"):
		neg, name = true, esc[3:len(esc)-1]
	case strings.HasPrefix(esc, "P{^"):
		name = esc[3 : len(esc)-1]
	case strings.HasPrefix(esc, "p{"):
		name = esc[2 : len(esc)-1]
	case strings.HasPrefix(esc, "P{"):
		neg, name = true, esc[2:len(esc)-1]
	case strings.HasPrefix(esc, "p"):
		name = esc[1:]
	case strings.HasPrefix(esc, "P"):
		neg, name = true, esc[1:]
	}
	in, _ := inTable(r, name)
	return in != neg
}

func (it Item) contains(r rune, e Env) bool {
	switch it.K {
	case "r":
		return r == it.Lo
	case "rng":
		return r >= it.Lo && r <= it.Hi
	case "esc":
		return EscContains(it.Esc, r, e)
	}
	return false
}

// rawContains is class membership before folding and negation of THIS class (nested subtracted
// classes are complete: they apply their own negation, but never fold).
func (c *Class) rawContains(r rune, e Env) bool {
	in := false
	for _, it := range c.Items {
		if !it.Minus && it.contains(r, e) {
			in = true
			break
		}
	}
	if !in {
		return false
	}
	for _, it := range c.Items {
		if it.Minus && it.contains(r, e) {
			return false
		}
	}
	for _, m := range c.Minus {
		if m.nestedContains(r, e) {
			return false
		}
	}
	return true
}

func (c *Class) nestedContains(r rune, e Env) bool {
	in := c.rawContains(r, e)
	if c.Neg {
		return !in && r <= e.maxRune()
	}
	return in
}

// Contains is the documented meaning of a top-level bracket expression for one code point / byte.
func (c *Class) Contains(r rune, e Env) bool {
	if r < 0 || r > e.maxRune() {
		return false
	}
	in := c.rawContains(r, e)
	if !in && e.Fold && (!e.Bytes || r < 0x80) {
		for _, f := range orbit(r)[1:] {
			if f <= e.maxRune() && c.rawContains(f, e) {
				in = true
				break
			}
		}
	}
	if c.Neg {
		return !in
	}
	return in
}

// Sym is one input symbol with its byte extent.
type Sym struct {
	R     rune
	Start int
	End   int
}

// Symbols splits text into runes (invalid UTF-8 => U+FFFD of width 1) or bytes.
func Symbols(text string, bytes bool) []Sym {
	var ret []Sym
	for i := 0; i < len(text); {
		if bytes {
			ret = append(ret, Sym{rune(text[i]), i, i + 1})
			i++
			continue
		}
		r, w := utf8.DecodeRuneInString(text[i:])
		ret = append(ret, Sym{r, i, i + w})
		i += w
	}
	return ret
}

// litMatches reports whether a single-symbol literal r matches input symbol s.
func litMatches(r, s rune, e Env) bool {
	if r == s {
		return true
	}
	if !e.Fold || (e.Bytes && (r >= 0x80 || s >= 0x80)) {
		return false
	}
	for _, f := range orbit(r)[1:] {
		if f == s {
			return true
		}
	}
	return false
}

// step advances a set of symbol indices over node n; positions are indices into syms
// (len(syms) = end). The result is the set of reachable indices.
func step(n *Node, e Env, syms []Sym, from map[int]bool, depth int) map[int]bool {
	out := map[int]bool{}
	if len(from) == 0 || depth > 40 {
		return out
	}
	switch n.Op {
	case "lit":
		if e.Bytes && n.R >= 0x80 {
			// standalone non-ASCII code point in byte mode: its UTF-8 encoding, byte by byte
			enc := []byte(string(n.R))
			for p := range from {
				ok := p+len(enc) <= len(syms)
				for i := 0; ok && i < len(enc); i++ {
					if syms[p+i].R != rune(enc[i]) {
						ok = false
					}
				}
				if ok {
					out[p+len(enc)] = true
				}
			}
			return out
		}
		for p := range from {
			if p < len(syms) && litMatches(n.R, syms[p].R, e) {
				out[p+1] = true
			}
		}
	case "esc":
		for p := range from {
			if p >= len(syms) || syms[p].R > e.maxRune() {
				continue
			}
			in := EscContains(n.Name, syms[p].R, e)
			if !in && e.Fold && (!e.Bytes || syms[p].R < 0x80) {
				// positive escapes only (negated ones are not generated under folding)
				for _, f := range orbit(syms[p].R)[1:] {
					if f <= e.maxRune() && EscContains(n.Name, f, e) {
						in = true
					}
				}
			}
			if in {
				out[p+1] = true
			}
		}
	case "class":
		for p := range from {
			if p < len(syms) && n.Cls.Contains(syms[p].R, e) {
				out[p+1] = true
			}
		}
	case "dot":
		for p := range from {
			if p < len(syms) && syms[p].R != '\n' && syms[p].R <= e.maxRune() {
				out[p+1] = true
			}
		}
	case "cat":
		cur := from
		for _, s := range n.Sub {
			cur = step(s, e, syms, cur, depth+1)
		}
		return cur
	case "alt":
		for _, s := range n.Sub {
			for p := range step(s, e, syms, from, depth+1) {
				out[p] = true
			}
		}
	case "rep":
		cur := from
		for i := 0; i < n.Min; i++ {
			cur = step(n.Sub[0], e, syms, cur, depth+1)
		}
		for p := range cur {
			out[p] = true
		}
		if n.Max == -1 {
			frontier := cur
			for len(frontier) > 0 {
				next := step(n.Sub[0], e, syms, frontier, depth+1)
				frontier = map[int]bool{}
				for p := range next {
					if !out[p] {
						out[p] = true
						frontier[p] = true
					}
				}
			}
		} else {
			for i := n.Min; i < n.Max; i++ {
				cur = step(n.Sub[0], e, syms, cur, depth+1)
				for p := range cur {
					out[p] = true
				}
			}
		}
	case "ref":
		if sub := e.Refs[n.Name]; sub != nil {
			ne := e
			ne.Fold = e.RefFold
			return step(sub, ne, syms, from, depth+1)
		}
	case "grp":
		ne := e
		switch n.Fold {
		case 1:
			ne.Fold = true
		case 2:
			ne.Fold = false
		}
		return step(n.Sub[0], ne, syms, from, depth+1)
	}
	return out
}

// MatchLens returns the byte lengths of all prefixes of text matched by n (sorted ascending), and
// alive: the largest number of bytes after which the pattern could still be extended or has
// matched (i.e. the longest prefix that is a prefix of a match).
func MatchLens(n *Node, e Env, text string) (lens []int, syms []Sym) {
	syms = Symbols(text, e.Bytes)
	ends := step(n, e, syms, map[int]bool{0: true}, 0)
	for i := 0; i <= len(syms); i++ {
		if ends[i] {
			if i == len(syms) {
				lens = append(lens, len(text))
			} else {
				lens = append(lens, syms[i].Start)
			}
		}
	}
	return lens, syms
}
