package respec

import (
	"strings"
	"unicode"
)

// CanAbsorb reports whether syms[p:] is a (possibly complete) prefix of some string matched by n
// when matching starts at symbol index p. All sub-languages are assumed non-empty.
func CanAbsorb(n *Node, e Env, syms []Sym, p int, depth int) bool {
	if p >= len(syms) {
		return true
	}
	if depth > 40 {
		return false
	}
	switch n.Op {
	case "lit":
		if e.Bytes && n.R >= 0x80 {
			enc := []byte(string(n.R))
			rest := len(syms) - p
			if rest > len(enc) {
				return false
			}
			for i := 0; i < rest; i++ {
				if syms[p+i].R != rune(enc[i]) {
					return false
				}
			}
			return true
		}
		return p+1 == len(syms) && litMatches(n.R, syms[p].R, e)
	case "esc", "class", "dot":
		if p+1 != len(syms) {
			return false
		}
		return step(n, e, syms, map[int]bool{p: true}, depth+1)[p+1]
	case "cat":
		cur := map[int]bool{p: true}
		for _, s := range n.Sub {
			for q := range cur {
				if CanAbsorb(s, e, syms, q, depth+1) {
					return true
				}
			}
			cur = step(s, e, syms, cur, depth+1)
			if len(cur) == 0 {
				return false
			}
		}
		return cur[len(syms)]
	case "alt":
		for _, s := range n.Sub {
			if CanAbsorb(s, e, syms, p, depth+1) {
				return true
			}
		}
		return false
	case "rep":
		cur := map[int]bool{p: true}
		seen := map[int]bool{p: true}
		for i := 0; n.Max == -1 || i < n.Max; i++ {
			for q := range cur {
				if CanAbsorb(n.Sub[0], e, syms, q, depth+1) {
					return true
				}
			}
			next := step(n.Sub[0], e, syms, cur, depth+1)
			cur = map[int]bool{}
			for q := range next {
				if n.Max != -1 || !seen[q] {
					cur[q] = true
					seen[q] = true
				}
			}
			if len(cur) == 0 {
				return false
			}
			if i > len(syms)+n.Min+2 && n.Max == -1 {
				return false
			}
		}
		return cur[len(syms)]
	case "ref":
		if sub := e.Refs[n.Name]; sub != nil {
			ne := e
			ne.Fold = e.RefFold
			return CanAbsorb(sub, ne, syms, p, depth+1)
		}
		return false
	case "grp":
		ne := e
		switch n.Fold {
		case 1:
			ne.Fold = true
		case 2:
			ne.Fold = false
		}
		return CanAbsorb(n.Sub[0], ne, syms, p, depth+1)
	}
	return false
}

// ViablePrefix returns the byte length of the longest prefix of text (on symbol boundaries) that is
// a prefix of some string matched by one of the patterns.
func ViablePrefix(nodes []*Node, envs []Env, text string, bytes bool) int {
	syms := Symbols(text, bytes)
	best := 0
	for k := 1; k <= len(syms); k++ {
		ok := false
		for i, n := range nodes {
			if CanAbsorb(n, envs[i], syms[:k], 0, 0) {
				ok = true
				break
			}
		}
		if !ok {
			break
		}
		best = syms[k-1].End
	}
	return best
}

// Constant reports whether the expression matches exactly one string by construction, the way
// Textmapper decides which rules can be specialised from a (class) rule: literal characters and
// one-member classes that case folding does not widen, concatenated; no alternation, repetition,
// escapes, dot or named patterns.
func Constant(n *Node, env Env) (string, bool) {
	single := func(r rune) (string, bool) {
		if env.Fold {
			members := 0
			for f := r; ; {
				if f <= env.maxRune() {
					members++
				}
				f = unicode.SimpleFold(f)
				if f == r {
					break
				}
			}
			if members != 1 {
				return "", false
			}
		}
		if env.Bytes && r > 0xff {
			return "", false
		}
		if env.Bytes {
			return string([]byte{byte(r)}), true
		}
		return string(r), true
	}
	switch n.Op {
	case "lit":
		if env.Bytes && n.R > 0x7f {
			// a non-ASCII literal in byte mode stands for its UTF-8 bytes unless written as \xHH
			if n.Enc == "x" || n.Enc == "o" {
				return single(n.R)
			}
			if env.Fold && unicode.SimpleFold(n.R) != n.R {
				return "", false
			}
			return string(n.R), true
		}
		return single(n.R)
	case "class":
		c := n.Cls
		if c == nil || c.Neg || len(c.Minus) > 0 || len(c.Items) != 1 {
			return "", false
		}
		it := c.Items[0]
		if it.Minus || (it.K != "r" && !(it.K == "rng" && it.Lo == it.Hi)) {
			return "", false
		}
		return single(it.Lo)
	case "cat":
		var sb strings.Builder
		for _, s := range n.Sub {
			v, ok := Constant(s, env)
			if !ok {
				return "", false
			}
			sb.WriteString(v)
		}
		return sb.String(), true
	case "grp":
		e := env
		switch n.Fold {
		case 1:
			e.Fold = true
		case 2:
			e.Fold = false
		}
		if len(n.Sub) != 1 {
			return "", false
		}
		return Constant(n.Sub[0], e)
	case "alt":
		if len(n.Sub) == 1 {
			return Constant(n.Sub[0], env)
		}
	}
	return "", false
}
