package respec

// CanAbsorb reports whether syms[p:] is a (possibly complete) prefix of some string matched by n
// when matching starts at symbol index p. All sub-languages are assumed non-empty.
func CanAbsorb(n *Node, e Env, syms []Sym, p int, depth int) bool {
	if p >= len(syms) {
		return true
	}
	if depth > 40 {
		return false
	}
	switch n.Op {
	case "lit":
		if e.Bytes && n.R >= 0x80 {
			enc := []byte(string(n.R))
			rest := len(syms) - p
			if rest > len(enc) {
				return false
			}
			for i := 0; i < rest; i++ {
				if syms[p+i].R != rune(enc[i]) {
					return false
				}
			}
			return true
		}
		return p+1 == len(syms) && litMatches(n.R, syms[p].R, e)
	case "esc", "class", "dot":
		if p+1 != len(syms) {
			return false
		}
		return step(n, e, syms, map[int]bool{p: true}, depth+1)[p+1]
	case "cat":
		cur := map[int]bool{p: true}
		for _, s := range n.Sub {
			for q := range cur {
				if CanAbsorb(s, e, syms, q, depth+1) {
					return true
				}
			}
			cur = step(s, e, syms, cur, depth+1)
			if len(cur) == 0 {
				return false
			}
		}
		return cur[len(syms)]
	case "alt":
		for _, s := range n.Sub {
			if CanAbsorb(s, e, syms, p, depth+1) {
				return true
			}
		}
		return false
	case "rep":
		cur := map[int]bool{p: true}
		seen := map[int]bool{p: true}
		for i := 0; n.Max == -1 || i < n.Max; i++ {
			for q := range cur {
				if CanAbsorb(n.Sub[0], e, syms, q, depth+1) {
					return true
				}
			}
			next := step(n.Sub[0], e, syms, cur, depth+1)
			cur = map[int]bool{}
			for q := range next {
				if n.Max != -1 || !seen[q] {
					cur[q] = true
					seen[q] = true
				}
			}
			if len(cur) == 0 {
				return false
			}
			if i > len(syms)+n.Min+2 && n.Max == -1 {
				return false
			}
		}
		return cur[len(syms)]
	case "ref":
		if sub := e.Refs[n.Name]; sub != nil {
			ne := e
			ne.Fold = e.RefFold
			return CanAbsorb(sub, ne, syms, p, depth+1)
		}
		return false
	case "grp":
		ne := e
		switch n.Fold {
		case 1:
			ne.Fold = true
		case 2:
			ne.Fold = false
		}
		return CanAbsorb(n.Sub[0], ne, syms, p, depth+1)
	}
	return false
}

// ViablePrefix returns the byte length of the longest prefix of text (on symbol boundaries) that is
// a prefix of some string matched by one of the patterns.
func ViablePrefix(nodes []*Node, envs []Env, text string, bytes bool) int {
	syms := Symbols(text, bytes)
	best := 0
	for k := 1; k <= len(syms); k++ {
		ok := false
		for i, n := range nodes {
			if CanAbsorb(n, envs[i], syms[:k], 0, 0) {
				ok = true
				break
			}
		}
		if !ok {
			break
		}
		best = syms[k-1].End
	}
	return best
}
