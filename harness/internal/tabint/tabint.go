// Package tabint interprets lalr.Tables exactly as the generated Go parser does (see the comments
// on lalr.DefaultEnc / lalr.DisplacementEnc and gen/templates/go_parser.go.tmpl:parseFunc), but is
// written from the documented encodings and uses linear searches only.
package tabint

import (
	"fmt"

	"github.com/inspirer/textmapper/lalr"
)

// Opts configures a run.
type Opts struct {
	Optimized bool // decode through Tables.Optimized (displacement encoding)
	MaxSteps  int  // 0: derived from the input length
	NumRules  int  // number of grammar rules; rules >= NumRules are runtime lookahead rules
	// Pred returns the outcome of runtime lookahead predicate `input` at token position pos.
	Pred func(input int32, pos int) bool
	// Trace enables event collection.
	Trace bool
}

// Event is one parser step.
type Event struct {
	Kind byte // 's' shift (A=terminal, B=token index), 'r' reduce (A=rule, B=lhs actually used), 'e' error (A=token index)
	A, B int
}

// Result is the outcome of a run.
type Result struct {
	Accept  bool
	ErrTok  int // index of the token at which the error was reported (len(tokens) = end of input)
	Events  []Event
	Overrun bool   // step budget exhausted (non-terminating table)
	Broken  string // table inconsistency (e.g. missing goto after a reduction)
	States  []int  // states visited (when Trace)
	DeepLA  int    // max number of extra tokens consulted by an LALR(k) decision
}

func lalrLookup(t *lalr.Tables, action, next int) int {
	a := -action - 3
	for ; t.Lalr[a] >= 0; a += 2 {
		if t.Lalr[a] == next {
			break
		}
	}
	return t.Lalr[a+1]
}

// GotoDefault is the goto lookup of the default encoding (linear scan).
func GotoDefault(t *lalr.DefaultEnc, state, symbol int) int {
	if symbol < 0 || symbol+1 >= len(t.Goto) {
		return -1
	}
	for i := t.Goto[symbol]; i < t.Goto[symbol+1]; i += 2 {
		if t.FromTo[i] == state {
			return t.FromTo[i+1]
		}
	}
	return -1
}

// ActionOptimized decodes the displacement-encoded action of (state, terminal):
// >= 0 rule, -1 error, <= -2 shift to state -2-action.
func ActionOptimized(o *lalr.DisplacementEnc, state, term int) int {
	action := o.Action[state]
	if action > o.Base {
		pos := action + term
		if pos >= 0 && pos < len(o.Table) && o.Check[pos] == term {
			return o.Table[pos]
		}
	}
	return o.DefAct[state]
}

// GotoOptimized decodes the displacement-encoded goto of (state, symbol).
func GotoOptimized(o *lalr.DisplacementEnc, terms, state, symbol int) int {
	if symbol >= terms {
		pos := o.Goto[symbol-terms] + state
		if pos >= 0 && pos < len(o.Table) && o.Check[pos] == state {
			return o.Table[pos]
		}
		return o.DefGoto[symbol-terms]
	}
	action := o.Action[state]
	if action == o.Base {
		return -1
	}
	a := ActionOptimized(o, state, symbol)
	if a < -1 {
		return -2 - a
	}
	return -1
}

// Run parses tokens (terminal numbers, without the trailing end-of-input) starting at the entry
// state of the given input index, exactly like Parser.parse(start=input, end=FinalStates[input]).
func Run(t *lalr.Tables, o Opts, input int, tokens []int) Result {
	var res Result
	end := t.FinalStates[input]
	state := input
	stack := []int{state}
	pos := 0
	next := func() int {
		if pos < len(tokens) {
			return tokens[pos]
		}
		return 0
	}
	at := func(p int) int {
		if p < len(tokens) {
			return tokens[p]
		}
		return 0
	}
	max := o.MaxSteps
	if max == 0 {
		max = 200*(len(tokens)+2) + 2000
	}
	terms := 0
	if o.Optimized {
		terms = -t.Optimized.Base
	}
	for steps := 0; state != end; steps++ {
		if steps > max {
			res.Overrun = true
			return res
		}
		if o.Trace {
			res.States = append(res.States, state)
		}
		var action int
		shiftTo := -1
		isShift, isErr := false, false
		if o.Optimized {
			opt := t.Optimized
			action = opt.Action[state]
			if action > opt.Base {
				action = ActionOptimized(opt, state, next())
			} else {
				action = opt.DefAct[state]
			}
			switch {
			case action >= 0:
			case action < -1:
				isShift = true
				shiftTo = -2 - action
			default:
				isErr = true
			}
		} else {
			action = t.Action[state]
			if action < -2 {
				action = lalrLookup(t, action, next())
				if action < -2 {
					p := pos + 1
					depth := 0
					for action < -2 {
						action = lalrLookup(t, action, at(p))
						p++
						depth++
						if depth > 64 {
							res.Broken = "deep lookahead does not terminate"
							return res
						}
					}
					if depth > res.DeepLA {
						res.DeepLA = depth
					}
				}
			}
			switch {
			case action >= 0:
			case action == -1:
				isShift = true
				shiftTo = GotoDefault(t.DefaultEnc, state, next())
				if shiftTo < 0 {
					isErr = true
				}
			default:
				isErr = true
			}
		}

		if action >= 0 && !isShift && !isErr {
			rule := action
			if rule >= len(t.RuleLen) {
				res.Broken = fmt.Sprintf("rule %d out of range", rule)
				return res
			}
			ln := t.RuleLen[rule]
			lhs := t.RuleSymbol[rule]
			if o.NumRules > 0 && rule >= o.NumRules {
				la := t.Lookaheads[rule-o.NumRules]
				lhs = int(la.DefaultTarget)
				for _, c := range la.Cases {
					v := false
					if o.Pred != nil {
						v = o.Pred(c.Input, pos)
					}
					if v != c.Negated {
						lhs = int(c.Target)
						break
					}
				}
			}
			if ln > len(stack)-1 {
				res.Broken = fmt.Sprintf("reduce of rule %d pops below the stack bottom", rule)
				return res
			}
			stack = stack[:len(stack)-ln]
			top := stack[len(stack)-1]
			if o.Optimized {
				state = GotoOptimized(t.Optimized, terms, top, lhs)
			} else {
				state = GotoDefault(t.DefaultEnc, top, lhs)
			}
			if o.Trace {
				res.Events = append(res.Events, Event{'r', rule, lhs})
			}
			if state < 0 {
				// the generated parser reports a syntax error here (state == -1)
				res.ErrTok = pos
				res.Broken = fmt.Sprintf("no goto from state %d on symbol %d after reducing rule %d", top, lhs, rule)
				return res
			}
			stack = append(stack, state)
			continue
		}
		if isShift && !isErr {
			state = shiftTo
			stack = append(stack, state)
			if o.Trace {
				res.Events = append(res.Events, Event{'s', next(), pos})
			}
			if next() != 0 {
				pos++
			}
			continue
		}
		res.ErrTok = pos
		if pos > len(tokens) {
			res.ErrTok = len(tokens)
		}
		if o.Trace {
			res.Events = append(res.Events, Event{'e', res.ErrTok, 0})
		}
		return res
	}
	res.Accept = true
	res.ErrTok = -1
	return res
}
