package oracle

// Earley recogniser over a CFG with unproductive rules pruned, so that a non-empty item set after
// k tokens means "tokens[:k] is a prefix of some sentence".

// Recognizer is prepared for one start nonterminal.
type Recognizer struct {
	g        *CFG
	start    int
	rules    []CFGRule // productive rules only
	byLHS    map[int][]int
	nullable []bool
	// Productive[sym] reports whether the symbol derives some terminal string.
	Productive []bool
}

// Productive computes which symbols derive at least one terminal string.
func Productive(g *CFG) []bool {
	p := make([]bool, g.Terms+g.Nts)
	for t := 0; t < g.Terms; t++ {
		p[t] = true
	}
	for changed := true; changed; {
		changed = false
		for _, r := range g.Rules {
			if p[r.LHS] {
				continue
			}
			ok := true
			for _, s := range r.RHS {
				if !p[s] {
					ok = false
					break
				}
			}
			if ok {
				p[r.LHS] = true
				changed = true
			}
		}
	}
	return p
}

// NewRecognizer prepares a recogniser for sentences of nonterminal start.
func NewRecognizer(g *CFG, start int) *Recognizer {
	r := &Recognizer{g: g, start: start, byLHS: map[int][]int{}}
	r.Productive = Productive(g)
	for _, rule := range g.Rules {
		ok := true
		for _, s := range rule.RHS {
			if !r.Productive[s] {
				ok = false
				break
			}
		}
		if ok {
			r.byLHS[rule.LHS] = append(r.byLHS[rule.LHS], len(r.rules))
			r.rules = append(r.rules, rule)
		}
	}
	pruned := &CFG{Terms: g.Terms, Nts: g.Nts, Rules: r.rules}
	r.nullable = Nullable(pruned)
	return r
}

type eItem struct{ rule, dot, origin int }

// Analysis is the result of recognising one token string.
type Analysis struct {
	// Viable is the largest k such that tokens[:k] is a prefix of some sentence.
	Viable int
	// SentenceAt[k] reports whether tokens[:k] is a sentence (k = 0..Viable).
	SentenceAt []bool
}

// IsSentence reports whether the complete token string is a sentence.
func (a *Analysis) IsSentence(n int) bool {
	return n < len(a.SentenceAt) && a.SentenceAt[n]
}

// ShortestSentencePrefix returns the least k with tokens[:k] a sentence, or -1.
func (a *Analysis) ShortestSentencePrefix() int {
	for k, ok := range a.SentenceAt {
		if ok {
			return k
		}
	}
	return -1
}

// Analyze runs the recogniser.
func (r *Recognizer) Analyze(tokens []int) *Analysis {
	const startRule = -1 // S' -> start
	res := &Analysis{}
	if !r.Productive[r.start] {
		// no sentence at all: even the empty prefix is not a prefix of a sentence
		res.Viable = -1
		return res
	}
	rhs := func(rule int) []int {
		if rule == startRule {
			return []int{r.start}
		}
		return r.rules[rule].RHS
	}
	lhs := func(rule int) int {
		if rule == startRule {
			return -1
		}
		return r.rules[rule].LHS
	}
	sets := make([][]eItem, 1, len(tokens)+1)
	seen := []map[eItem]bool{{}}
	add := func(k int, it eItem) {
		if !seen[k][it] {
			seen[k][it] = true
			sets[k] = append(sets[k], it)
		}
	}
	add(0, eItem{startRule, 0, 0})
	for k := 0; ; k++ {
		for i := 0; i < len(sets[k]); i++ {
			it := sets[k][i]
			rh := rhs(it.rule)
			if it.dot < len(rh) {
				sym := rh[it.dot]
				if sym >= r.g.Terms {
					for _, ri := range r.byLHS[sym] {
						add(k, eItem{ri, 0, k})
					}
					if r.nullable[sym] {
						add(k, eItem{it.rule, it.dot + 1, it.origin})
					}
				}
				continue
			}
			// completion
			l := lhs(it.rule)
			if l < 0 {
				continue
			}
			for j := 0; j < len(sets[it.origin]); j++ {
				p := sets[it.origin][j]
				prh := rhs(p.rule)
				if p.dot < len(prh) && prh[p.dot] == l {
					add(k, eItem{p.rule, p.dot + 1, p.origin})
				}
			}
		}
		sent := false
		for _, it := range sets[k] {
			if it.rule == startRule && it.dot == 1 {
				sent = true
			}
		}
		res.SentenceAt = append(res.SentenceAt, sent)
		res.Viable = k
		if k == len(tokens) {
			break
		}
		// scan
		sets = append(sets, nil)
		seen = append(seen, map[eItem]bool{})
		tok := tokens[k]
		for _, it := range sets[k] {
			rh := rhs(it.rule)
			if it.dot < len(rh) && rh[it.dot] == tok {
				add(k+1, eItem{it.rule, it.dot + 1, it.origin})
			}
		}
		if len(sets[k+1]) == 0 {
			break
		}
	}
	return res
}

// MinLen computes the length of the shortest terminal string of each symbol (-1: unproductive).
func MinLen(g *CFG) []int {
	const inf = 1 << 30
	m := make([]int, g.Terms+g.Nts)
	for i := range m {
		if i < g.Terms {
			m[i] = 1
		} else {
			m[i] = inf
		}
	}
	for changed := true; changed; {
		changed = false
		for _, r := range g.Rules {
			sum := 0
			for _, s := range r.RHS {
				if m[s] >= inf {
					sum = inf
					break
				}
				sum += m[s]
			}
			if sum < m[r.LHS] {
				m[r.LHS] = sum
				changed = true
			}
		}
	}
	for i := range m {
		if m[i] >= inf {
			m[i] = -1
		}
	}
	return m
}

// Sentence derives a random sentence of nonterminal nt. pick(n) must return a value in [0,n).
// budget bounds the length softly: once exceeded, shortest expansions are chosen.
// It returns the tokens and the rule sequence (leftmost derivation); ok=false if nt is unproductive.
func Sentence(g *CFG, nt int, budget int, pick func(n int) int) (tokens []int, rules []int, ok bool) {
	minLen := MinLen(g)
	if minLen[nt] < 0 {
		return nil, nil, false
	}
	ruleMin := make([]int, len(g.Rules))
	byLHS := map[int][]int{}
	for i, r := range g.Rules {
		sum := 0
		for _, s := range r.RHS {
			if minLen[s] < 0 {
				sum = -1
				break
			}
			sum += minLen[s]
		}
		ruleMin[i] = sum
		if sum >= 0 {
			byLHS[r.LHS] = append(byLHS[r.LHS], i)
		}
	}
	steps := 0
	var expand func(sym int, depth int)
	expand = func(sym int, depth int) {
		if sym < g.Terms {
			tokens = append(tokens, sym)
			return
		}
		cands := byLHS[sym]
		steps++
		var ri int
		if len(tokens) >= budget || depth > 12 || steps > 200 {
			ri = minHeightRule(g, sym, byLHS)
		} else {
			ri = cands[pick(len(cands))]
		}
		rules = append(rules, ri)
		for _, s := range g.Rules[ri].RHS {
			expand(s, depth+1)
		}
	}
	expand(nt, 0)
	return tokens, rules, true
}

// minHeightRule returns a rule of sym that starts a derivation tree of minimal height.
func minHeightRule(g *CFG, sym int, byLHS map[int][]int) int {
	const inf = 1 << 30
	h := make([]int, g.Terms+g.Nts)
	for i := range h {
		if i >= g.Terms {
			h[i] = inf
		}
	}
	for changed := true; changed; {
		changed = false
		for _, r := range g.Rules {
			mx := 0
			for _, s := range r.RHS {
				if h[s] > mx {
					mx = h[s]
				}
			}
			if mx < inf && mx+1 < h[r.LHS] {
				h[r.LHS] = mx + 1
				changed = true
			}
		}
	}
	best, bh := byLHS[sym][0], inf
	for _, ri := range byLHS[sym] {
		mx := 0
		for _, s := range g.Rules[ri].RHS {
			if h[s] > mx {
				mx = h[s]
			}
		}
		if mx < bh {
			bh, best = mx, ri
		}
	}
	return best
}
