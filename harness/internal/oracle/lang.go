package oracle

import "sort"

// Bounded language enumeration: Lang<=L(nt) as a least fixpoint over sets of token strings of
// length <= L. Token strings are Go strings whose bytes are terminal numbers + 1.

// LangSet is a finite set of token strings.
type LangSet map[string]struct{}

// Eps is the language {""}.
func Eps() LangSet { return LangSet{"": {}} }

// Single is the language of one terminal.
func Single(term int) LangSet { return LangSet{string([]byte{byte(term + 1)}): {}} }

// Union adds b to a (in place) and reports whether a grew.
func (a LangSet) Union(b LangSet) bool {
	grew := false
	for s := range b {
		if _, ok := a[s]; !ok {
			a[s] = struct{}{}
			grew = true
		}
	}
	return grew
}

// Concat returns {xy | x in a, y in b, |xy| <= L}.
func Concat(a, b LangSet, L int) LangSet {
	ret := LangSet{}
	for x := range a {
		for y := range b {
			if len(x)+len(y) <= L {
				ret[x+y] = struct{}{}
			}
		}
	}
	return ret
}

// Star returns the closure (elem (sep elem)*) restricted to length L; plus=false adds "".
func Star(elem, sep LangSet, plus bool, L int) LangSet {
	ret := LangSet{}
	cur := LangSet{}
	cur.Union(elem)
	ret.Union(elem)
	for len(cur) > 0 {
		next := Concat(cur, elem, L)
		if sep != nil {
			next = Concat(Concat(cur, sep, L), elem, L)
		}
		cur = LangSet{}
		for s := range next {
			if _, ok := ret[s]; !ok {
				ret[s] = struct{}{}
				cur[s] = struct{}{}
			}
		}
	}
	if !plus {
		ret[""] = struct{}{}
	}
	return ret
}

// PlainLang computes Lang<=L for every nonterminal of a plain rule list. Symbols < terms are
// terminals, the others nonterminals (index sym-terms).
func PlainLang(terms, nts int, rules []CFGRule, L int) []LangSet {
	lang := make([]LangSet, nts)
	for i := range lang {
		lang[i] = LangSet{}
	}
	for changed := true; changed; {
		changed = false
		for _, r := range rules {
			cur := Eps()
			for _, s := range r.RHS {
				if s < terms {
					cur = Concat(cur, Single(s), L)
				} else {
					cur = Concat(cur, lang[s-terms], L)
				}
				if len(cur) == 0 {
					break
				}
			}
			if lang[r.LHS-terms].Union(cur) {
				changed = true
			}
		}
	}
	return lang
}

// Diff returns up to n strings that are in a but not in b (sorted, shortest first).
func Diff(a, b LangSet, n int) []string {
	var ret []string
	for s := range a {
		if _, ok := b[s]; !ok {
			ret = append(ret, s)
		}
	}
	sort.Slice(ret, func(i, j int) bool {
		if len(ret[i]) != len(ret[j]) {
			return len(ret[i]) < len(ret[j])
		}
		return ret[i] < ret[j]
	})
	if len(ret) > n {
		ret = ret[:n]
	}
	return ret
}
