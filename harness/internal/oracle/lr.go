// Package oracle holds the reference implementations the checks compare Textmapper with.
// Nothing here calls into Textmapper's algorithms; only its plain data types are read.
package oracle

import (
	"fmt"
	"sort"
	"strings"
)

// CFG is a plain context-free grammar. Symbols 0..Terms-1 are terminals (0 = end of input),
// Terms..Terms+Nts-1 are nonterminals.
type CFG struct {
	Terms  int
	Nts    int
	Rules  []CFGRule
	Inputs []CFGInput
}

// CFGRule is LHS -> RHS.
type CFGRule struct {
	LHS int
	RHS []int
}

// CFGInput is a start symbol; NoEoi inputs are accepted as soon as they are reduced.
type CFGInput struct {
	NT  int
	Eoi bool
}

// Item0 is an LR(0) item. Rule >= len(Rules) denotes the augmented rule of input Rule-len(Rules).
type Item0 struct{ Rule, Dot int }

// LRState is one state of the merged (LALR) automaton.
type LRState struct {
	Core   []Item0          // non-augmented kernel items, sorted
	Tag    string           // identity of states with an empty Core
	Items  map[Item0]uint64 // closure: item -> lookahead terminals
	Goto   map[int]int      // symbol -> state
	Accept int              // input index this state accepts (eoi: after shifting eoi; no-eoi: on entry), else -1
	Merged int              // number of canonical LR(1) states merged into this one
	// TrueMerge is set when two merged LR(1) states contributed different lookahead sets to an item.
	TrueMerge bool
}

// LALR is the reference automaton.
type LALR struct {
	G      *CFG
	States []*LRState
	Init   []int // per input
	Final  []int // per input: accepting state
	LR1    int   // number of canonical LR(1) states
}

type lrCtx struct {
	g        *CFG
	nullable []bool
	first    []uint64 // per symbol
	byLHS    [][]int
	nR       int
}

func (c *lrCtx) rhs(rule int) []int {
	if rule < c.nR {
		return c.g.Rules[rule].RHS
	}
	inp := c.g.Inputs[rule-c.nR]
	if inp.Eoi {
		return []int{inp.NT, 0}
	}
	return []int{inp.NT}
}

// Nullable computes the nullable nonterminals (indexed by symbol).
func Nullable(g *CFG) []bool {
	n := make([]bool, g.Terms+g.Nts)
	for changed := true; changed; {
		changed = false
		for _, r := range g.Rules {
			if n[r.LHS] {
				continue
			}
			all := true
			for _, s := range r.RHS {
				if !n[s] {
					all = false
					break
				}
			}
			if all {
				n[r.LHS] = true
				changed = true
			}
		}
	}
	return n
}

// First computes FIRST sets (terminals only, as bit masks) for every symbol.
func First(g *CFG, nullable []bool) []uint64 {
	f := make([]uint64, g.Terms+g.Nts)
	for t := 0; t < g.Terms; t++ {
		f[t] = 1 << uint(t)
	}
	for changed := true; changed; {
		changed = false
		for _, r := range g.Rules {
			acc := f[r.LHS]
			for _, s := range r.RHS {
				acc |= f[s]
				if !nullable[s] {
					break
				}
			}
			if acc != f[r.LHS] {
				f[r.LHS] = acc
				changed = true
			}
		}
	}
	return f
}

func (c *lrCtx) firstOfSeq(seq []int, la uint64) uint64 {
	var acc uint64
	for _, s := range seq {
		acc |= c.first[s]
		if !c.nullable[s] {
			return acc
		}
	}
	return acc | la
}

func (c *lrCtx) closure(kernel map[Item0]uint64) map[Item0]uint64 {
	items := make(map[Item0]uint64, len(kernel)*2)
	var work []Item0
	for it, la := range kernel {
		items[it] = la
		work = append(work, it)
	}
	sort.Slice(work, func(i, j int) bool {
		if work[i].Rule != work[j].Rule {
			return work[i].Rule < work[j].Rule
		}
		return work[i].Dot < work[j].Dot
	})
	for len(work) > 0 {
		it := work[len(work)-1]
		work = work[:len(work)-1]
		rhs := c.rhs(it.Rule)
		if it.Dot >= len(rhs) {
			continue
		}
		b := rhs[it.Dot]
		if b < c.g.Terms {
			continue
		}
		la := c.firstOfSeq(rhs[it.Dot+1:], items[it])
		for _, r := range c.byLHS[b] {
			ni := Item0{r, 0}
			old, ok := items[ni]
			if !ok || old|la != old {
				items[ni] = old | la
				work = append(work, ni)
			}
		}
	}
	return items
}

func kernelKey(tag string, kernel map[Item0]uint64) string {
	keys := make([]Item0, 0, len(kernel))
	for k := range kernel {
		keys = append(keys, k)
	}
	sort.Slice(keys, func(i, j int) bool {
		if keys[i].Rule != keys[j].Rule {
			return keys[i].Rule < keys[j].Rule
		}
		return keys[i].Dot < keys[j].Dot
	})
	var sb strings.Builder
	sb.WriteString(tag)
	for _, k := range keys {
		fmt.Fprintf(&sb, "|%d.%d:%x", k.Rule, k.Dot, kernel[k])
	}
	return sb.String()
}

// ErrTooLarge is returned when the canonical LR(1) collection exceeds the cap.
var ErrTooLarge = fmt.Errorf("canonical LR(1) collection too large")

// BuildLALR constructs the canonical LR(1) collection and merges states with equal LR(0) cores.
// The grammar is augmented with one rule S'_i -> input_i eoi (or S'_i -> input_i with every
// terminal as lookahead for no-eoi inputs) per input; augmented items are ordinary members of the
// cores, as in the textbook construction.
func BuildLALR(g *CFG, maxLR1 int) (*LALR, error) {
	if g.Terms > 63 {
		return nil, fmt.Errorf("too many terminals")
	}
	c := &lrCtx{g: g, nR: len(g.Rules)}
	c.nullable = Nullable(g)
	c.first = First(g, c.nullable)
	c.byLHS = make([][]int, g.Terms+g.Nts)
	for i, r := range g.Rules {
		c.byLHS[r.LHS] = append(c.byLHS[r.LHS], i)
	}
	allTerms := uint64(1)<<uint(g.Terms) - 1

	type lr1 struct {
		tag    string
		kernel map[Item0]uint64
		items  map[Item0]uint64
		gotos  map[int]int
	}
	var states []*lr1
	index := map[string]int{}
	add := func(tag string, kernel map[Item0]uint64) int {
		key := kernelKey(tag, kernel)
		if i, ok := index[key]; ok {
			return i
		}
		s := &lr1{tag: tag, kernel: kernel, gotos: map[int]int{}}
		index[key] = len(states)
		states = append(states, s)
		return len(states) - 1
	}
	init := make([]int, len(g.Inputs))
	for i, inp := range g.Inputs {
		la := uint64(0)
		if !inp.Eoi {
			la = allTerms
		}
		init[i] = add(fmt.Sprintf("init:%d", i), map[Item0]uint64{{c.nR + i, 0}: la})
	}
	for si := 0; si < len(states); si++ {
		if len(states) > maxLR1 {
			return nil, ErrTooLarge
		}
		s := states[si]
		s.items = c.closure(s.kernel)
		bySym := map[int]map[Item0]uint64{}
		for it, la := range s.items {
			rhs := c.rhs(it.Rule)
			if it.Dot >= len(rhs) {
				continue
			}
			sym := rhs[it.Dot]
			m := bySym[sym]
			if m == nil {
				m = map[Item0]uint64{}
				bySym[sym] = m
			}
			m[Item0{it.Rule, it.Dot + 1}] |= la
		}
		syms := make([]int, 0, len(bySym))
		for sym := range bySym {
			syms = append(syms, sym)
		}
		sort.Ints(syms)
		for _, sym := range syms {
			s.gotos[sym] = add("", bySym[sym])
		}
	}

	// Merge by core.
	coreOf := func(s *lr1) ([]Item0, string) {
		var core []Item0
		tag := ""
		for it := range s.kernel {
			if it.Rule >= c.nR {
				inp := it.Rule - c.nR
				switch it.Dot {
				case 0:
					tag = fmt.Sprintf("init:%d", inp)
				case 1:
					tag = fmt.Sprintf("last:%d", inp)
				case 2:
					tag = fmt.Sprintf("eoi:%d", inp)
				}
			}
			core = append(core, it)
		}
		sort.Slice(core, func(i, j int) bool {
			if core[i].Rule != core[j].Rule {
				return core[i].Rule < core[j].Rule
			}
			return core[i].Dot < core[j].Dot
		})
		return core, tag
	}
	ret := &LALR{G: g, LR1: len(states)}
	mergedIndex := map[string]int{}
	remap := make([]int, len(states))
	for i, s := range states {
		core, tag := coreOf(s)
		key := tag + fmt.Sprint(core)
		mi, ok := mergedIndex[key]
		if !ok {
			mi = len(ret.States)
			mergedIndex[key] = mi
			ret.States = append(ret.States, &LRState{Core: core, Tag: tag, Items: map[Item0]uint64{}, Goto: map[int]int{}, Accept: -1})
		}
		remap[i] = mi
		m := ret.States[mi]
		if m.Merged > 0 {
			for it, la := range s.items {
				if old, ok := m.Items[it]; ok && old != la {
					m.TrueMerge = true
				}
			}
		}
		m.Merged++
		for it, la := range s.items {
			m.Items[it] |= la
		}
	}
	for i, s := range states {
		m := ret.States[remap[i]]
		for sym, to := range s.gotos {
			t := remap[to]
			if old, ok := m.Goto[sym]; ok && old != t {
				return nil, fmt.Errorf("oracle invariant: merged goto mismatch")
			}
			m.Goto[sym] = t
		}
	}
	ret.Init = make([]int, len(g.Inputs))
	ret.Final = make([]int, len(g.Inputs))
	for i, inp := range g.Inputs {
		ret.Init[i] = remap[init[i]]
		last := ret.States[ret.Init[i]].Goto[inp.NT]
		if inp.Eoi {
			ret.Final[i] = ret.States[last].Goto[0]
		} else {
			ret.Final[i] = last
		}
		ret.States[ret.Final[i]].Accept = i
	}
	return ret, nil
}

// Cell describes the LALR(1) actions available in one state for one terminal.
type Cell struct {
	Shift   bool
	Reduces []int // rule indices, ascending
}

// Cells returns, for a state, the action candidates per terminal, and the list of reducible
// (non-augmented) rules of the state.
func (l *LALR) Cells(state int) (cells []Cell, reduces []int) {
	s := l.States[state]
	nR := len(l.G.Rules)
	cells = make([]Cell, l.G.Terms)
	for t := 0; t < l.G.Terms; t++ {
		if _, ok := s.Goto[t]; ok {
			cells[t].Shift = true
		}
	}
	var complete []Item0
	for it := range s.Items {
		if it.Rule < nR && it.Dot == len(l.G.Rules[it.Rule].RHS) {
			complete = append(complete, it)
		}
	}
	sort.Slice(complete, func(i, j int) bool { return complete[i].Rule < complete[j].Rule })
	for _, it := range complete {
		reduces = append(reduces, it.Rule)
		la := s.Items[it]
		for t := 0; t < l.G.Terms; t++ {
			if la&(1<<uint(t)) != 0 {
				cells[t].Reduces = append(cells[t].Reduces, it.Rule)
			}
		}
	}
	return cells, reduces
}

// HasTerminalShift reports whether the state can shift some terminal.
func (l *LALR) HasTerminalShift(state int) bool {
	for sym := range l.States[state].Goto {
		if sym < l.G.Terms {
			return true
		}
	}
	return false
}
