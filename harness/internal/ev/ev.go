// Package ev collects what a check actually covered (counters, classes, samples) and writes one
// shard file that the ./check driver merges into /verif/evidence/<id>.json.
package ev

import (
	"encoding/json"
	"fmt"
	"hash/fnv"
	"os"
	"sort"
	"strconv"
	"sync"
	"time"
)

// Recorder accumulates coverage data for one property in one process.
type Recorder struct {
	ID string

	mu         sync.Mutex
	start      time.Time
	evals      int64
	nt         map[uint64]struct{}
	classes    map[string]int64
	excluded   map[string]int64
	samples    []any
	maxSamples int
	rule       string
	assume     []string
	exhaustive bool
	extra      map[string]any
	known      map[string]int64

	// failure
	FailCase any
	FailMsg  string
	FailKey  string
}

// New creates a recorder.
func New(id string) *Recorder {
	return &Recorder{
		ID:         id,
		start:      time.Now(),
		nt:         map[uint64]struct{}{},
		classes:    map[string]int64{},
		excluded:   map[string]int64{},
		known:      map[string]int64{},
		extra:      map[string]any{},
		maxSamples: 4,
	}
}

// Rule states how cases are generated and what makes one non-trivial.
func (r *Recorder) Rule(s string) { r.rule = s }

// Assume adds an assumption to the evidence.
func (r *Recorder) Assume(s string) { r.assume = append(r.assume, s) }

// Exhaustive marks the run (or the recorded sub-space) as exhaustive.
func (r *Recorder) Exhaustive(b bool) { r.exhaustive = b }

// Extra stores an additional coverage key (last write wins; ints are summed across shards).
func (r *Recorder) Extra(k string, v any) {
	r.mu.Lock()
	r.extra[k] = v
	r.mu.Unlock()
}

// AddExtra adds to an integer extra key.
func (r *Recorder) AddExtra(k string, n int64) {
	r.mu.Lock()
	if cur, ok := r.extra[k].(int64); ok {
		r.extra[k] = cur + n
	} else {
		r.extra[k] = n
	}
	r.mu.Unlock()
}

// Eval counts n oracle comparisons.
func (r *Recorder) Eval(n int) {
	r.mu.Lock()
	r.evals += int64(n)
	r.mu.Unlock()
}

// Nontrivial records a distinct non-trivial case identified by key.
func (r *Recorder) Nontrivial(key string) {
	h := fnv.New64a()
	h.Write([]byte(key))
	v := h.Sum64()
	r.mu.Lock()
	r.nt[v] = struct{}{}
	r.mu.Unlock()
}

// Class counts a case in a class histogram.
func (r *Recorder) Class(label string) {
	r.mu.Lock()
	r.classes[label]++
	r.mu.Unlock()
}

// ClassN adds n to a class.
func (r *Recorder) ClassN(label string, n int) {
	r.mu.Lock()
	r.classes[label] += int64(n)
	r.mu.Unlock()
}

// Excluded counts a case left out by construction (known finding, outside domain).
func (r *Recorder) Excluded(label string) {
	r.mu.Lock()
	r.excluded[label]++
	r.mu.Unlock()
}

// KnownHit counts an occurrence of a listed known finding.
func (r *Recorder) KnownHit(key string) {
	r.mu.Lock()
	r.known[key]++
	r.mu.Unlock()
}

// Sample keeps one of the first few cases (only non-trivial ones should be passed).
func (r *Recorder) Sample(v any) {
	r.mu.Lock()
	if len(r.samples) < r.maxSamples {
		r.samples = append(r.samples, v)
	}
	r.mu.Unlock()
}

// WantSample reports whether more samples are needed (to avoid rendering cost).
func (r *Recorder) WantSample() bool {
	r.mu.Lock()
	defer r.mu.Unlock()
	return len(r.samples) < r.maxSamples
}

// Fail records the failing case; the last call wins (rapid re-runs the minimal case last).
func (r *Recorder) Fail(key string, c any, msg string) {
	r.mu.Lock()
	r.FailCase, r.FailMsg, r.FailKey = c, msg, key
	r.mu.Unlock()
}

type shard struct {
	ID         string           `json:"property_id"`
	Evals      int64            `json:"evaluations"`
	NT         []string         `json:"nt_hashes"`
	Classes    map[string]int64 `json:"classes"`
	Excluded   map[string]int64 `json:"excluded"`
	Known      map[string]int64 `json:"known_hits"`
	Samples    []any            `json:"samples"`
	Rule       string           `json:"rule"`
	Assume     []string         `json:"assumptions"`
	Exhaustive bool             `json:"exhaustive"`
	Extra      map[string]any   `json:"extra"`
	WallS      float64          `json:"wall_s"`
	Failed     bool             `json:"failed"`
	FailMsg    string           `json:"fail_msg,omitempty"`
	FailKey    string           `json:"fail_key,omitempty"`
	FailCase   any              `json:"fail_case,omitempty"`
	Completed  bool             `json:"completed"`
}

// Write stores the shard file at path. completed=false marks a truncated run.
func (r *Recorder) Write(path string, failed, completed bool) error {
	r.mu.Lock()
	defer r.mu.Unlock()
	s := shard{ID: r.ID, Evals: r.evals, Classes: r.classes, Excluded: r.excluded, Known: r.known,
		Samples: r.samples, Rule: r.rule, Assume: r.assume, Exhaustive: r.exhaustive, Extra: r.extra,
		WallS: time.Since(r.start).Seconds(), Failed: failed, Completed: completed}
	for h := range r.nt {
		s.NT = append(s.NT, strconv.FormatUint(h, 36))
	}
	sort.Strings(s.NT)
	if failed {
		s.FailMsg, s.FailKey, s.FailCase = r.FailMsg, r.FailKey, r.FailCase
	}
	data, err := json.Marshal(s)
	if err != nil {
		return fmt.Errorf("evidence marshal: %w", err)
	}
	return os.WriteFile(path, data, 0o644)
}

// NontrivialCount returns the number of distinct non-trivial cases so far.
func (r *Recorder) NontrivialCount() int {
	r.mu.Lock()
	defer r.mu.Unlock()
	return len(r.nt)
}
