// Package batch is "tier B": it generates Go code for many grammars with Textmapper (in process,
// from the current /repo tree), writes them as packages of one scratch module together with a
// per-package adapter, builds ONE driver binary and streams requests to it.
package batch

import (
	"bufio"
	"context"
	"encoding/json"
	"fmt"
	"io"
	"os"
	"os/exec"
	"path/filepath"
	"regexp"
	"runtime/debug"
	"sort"
	"strings"
	"time"

	"github.com/inspirer/textmapper/compiler"
	"github.com/inspirer/textmapper/gen"
	"github.com/inspirer/textmapper/grammar"
)

// Unit is one grammar to generate.
type Unit struct {
	Name string // package directory, e.g. g003; the grammar must say package = "scratch/g003"
	TM   string
	// Adapter returns extra files (relative to the package dir) given the compiled grammar and
	// the generated files. It must provide `func VerifRun(entry int, src string, arg string) string`
	// in the package's root directory.
	Adapter func(g *grammar.Grammar, files map[string]string) map[string]string
	Params  compiler.Params
	// RunPkg is the sub-package (relative to the unit directory) that provides VerifRun; ""
	// means the unit's root package.
	RunPkg string
}

// Result describes what happened to a unit.
type Result struct {
	CompileErr error
	GenErr     error // generation failed, panicked or would have exited the process
	Crash      string
	Grammar    *grammar.Grammar
	Files      map[string]string // generated files (without adapter files)
	Extra      map[string]string
	Built      bool
	BuildLog   string
}

type memWriter struct{ files map[string]string }

func (w *memWriter) Write(name, content string) error {
	w.files[name] = content
	return nil
}

// Generate compiles and generates one unit in-process.
func Generate(u *Unit) (res Result) {
	defer func() {
		if r := recover(); r != nil {
			res.Crash = fmt.Sprintf("%v\n%s", r, trim(string(debug.Stack()), 3000))
			res.GenErr = fmt.Errorf("crash: %v", r)
		}
	}()
	g, err := compiler.Compile(context.Background(), u.Name+".tm", u.TM, u.Params)
	if err != nil {
		res.CompileErr = err
		return res
	}
	res.Grammar = g
	w := &memWriter{files: map[string]string{}}
	if err := gen.Generate(g, w, gen.Options{}); err != nil {
		res.GenErr = err
		return res
	}
	res.Files = w.files
	if u.Adapter != nil {
		res.Extra = u.Adapter(g, w.files)
	}
	return res
}

func trim(s string, n int) string {
	if len(s) > n {
		return s[:n]
	}
	return s
}

// Runner talks to the built driver.
type Runner struct {
	dir     string
	bin     string
	cmd     *exec.Cmd
	in      io.WriteCloser
	out     *bufio.Reader
	Timeout time.Duration
	Env     []string
}

type request struct {
	U string `json:"u"`
	E int    `json:"e"`
	S []byte `json:"s"` // base64 in JSON: inputs are arbitrary byte strings
	A string `json:"a"`
}

type response struct {
	Out   string `json:"out"`
	Panic string `json:"panic,omitempty"`
}

const mainTemplate = `package main

import (
	"bufio"
	"encoding/json"
	"fmt"
	"os"
	"runtime/debug"

%s
)

var units = map[string]func(int, string, string) string{
%s
}

type request struct {
	U string ` + "`json:\"u\"`" + `
	E int    ` + "`json:\"e\"`" + `
	S []byte ` + "`json:\"s\"`" + `
	A string ` + "`json:\"a\"`" + `
}

type response struct {
	Out   string ` + "`json:\"out\"`" + `
	Panic string ` + "`json:\"panic,omitempty\"`" + `
}

func call(r request) (resp response) {
	defer func() {
		if e := recover(); e != nil {
			st := string(debug.Stack())
			if len(st) > 2500 {
				st = st[:2500]
			}
			resp.Panic = fmt.Sprintf("%%v\n%%s", e, st)
		}
	}()
	f := units[r.U]
	if f == nil {
		return response{Panic: "unknown unit " + r.U}
	}
	return response{Out: f(r.E, string(r.S), r.A)}
}

func main() {
	in := bufio.NewReaderSize(os.Stdin, 1<<20)
	out := bufio.NewWriter(os.Stdout)
	dec := json.NewDecoder(in)
	enc := json.NewEncoder(out)
	for {
		var r request
		if err := dec.Decode(&r); err != nil {
			return
		}
		enc.Encode(call(r))
		out.Flush()
	}
}
`

var pkgLine = regexp.MustCompile(`(?m)^# scratch/([A-Za-z0-9_]+)`)
var fileLine = regexp.MustCompile(`(?m)^([A-Za-z0-9_]+)/[^\s:]+\.go:\d+`)

// Build writes the scratch module into dir, builds the driver and returns a Runner. Units whose
// package does not build are reported through results[i].Built=false / BuildLog and left out.
func Build(dir string, units []Unit, results []Result, goBin string, race bool) (*Runner, error) {
	if err := os.MkdirAll(dir, 0o755); err != nil {
		return nil, err
	}
	if err := os.WriteFile(filepath.Join(dir, "go.mod"), []byte("module scratch\n\ngo 1.25\n"), 0o644); err != nil {
		return nil, err
	}
	alive := map[string]bool{}
	for i, u := range units {
		r := &results[i]
		if r.CompileErr != nil || r.GenErr != nil || r.Files == nil {
			continue
		}
		for name, content := range r.Files {
			p := filepath.Join(dir, u.Name, name)
			os.MkdirAll(filepath.Dir(p), 0o755)
			if err := os.WriteFile(p, []byte(content), 0o644); err != nil {
				return nil, err
			}
		}
		for name, content := range r.Extra {
			p := filepath.Join(dir, u.Name, name)
			os.MkdirAll(filepath.Dir(p), 0o755)
			if err := os.WriteFile(p, []byte(content), 0o644); err != nil {
				return nil, err
			}
		}
		alive[u.Name] = true
	}
	env := append(os.Environ(), "GOFLAGS=-mod=mod", "GOPROXY=off", "GOSUMDB=off", "GOTOOLCHAIN=local", "GOCACHE="+goCache(dir))
	bin := filepath.Join(dir, "driver")
	for attempt := 0; attempt < 6; attempt++ {
		var imports, table []string
		var names []string
		for n := range alive {
			names = append(names, n)
		}
		sort.Strings(names)
		for _, n := range names {
			path := n
			for _, u := range units {
				if u.Name == n && u.RunPkg != "" {
					path = n + "/" + u.RunPkg
				}
			}
			imports = append(imports, fmt.Sprintf("\t%s \"scratch/%s\"", n, path))
			table = append(table, fmt.Sprintf("\t%q: %s.VerifRun,", n, n))
		}
		if err := os.WriteFile(filepath.Join(dir, "main.go"), []byte(fmt.Sprintf(mainTemplate, strings.Join(imports, "\n"), strings.Join(table, "\n"))), 0o644); err != nil {
			return nil, err
		}
		// First every package of the module (sub-packages like ast/ or selector/ are not
		// necessarily imported by the adapter), then the driver itself.
		all := exec.Command(goBin, "build", "./...")
		all.Dir = dir
		all.Env = env
		out, err := all.CombinedOutput()
		if err == nil {
			args := []string{"build", "-o", bin}
			if race {
				args = append(args, "-race")
			}
			args = append(args, ".")
			cmd := exec.Command(goBin, args...)
			cmd.Dir = dir
			cmd.Env = env
			out, err = cmd.CombinedOutput()
		}
		if err == nil {
			for i, u := range units {
				if alive[u.Name] {
					results[i].Built = true
				}
			}
			return &Runner{dir: dir, bin: bin, Timeout: 10 * time.Second}, nil
		}
		// find failing packages
		failed := map[string]bool{}
		for _, m := range pkgLine.FindAllStringSubmatch(string(out), -1) {
			failed[strings.SplitN(m[1], "/", 2)[0]] = true
		}
		for _, m := range fileLine.FindAllStringSubmatch(string(out), -1) {
			if alive[m[1]] {
				failed[m[1]] = true
			}
		}
		progress := false
		for i, u := range units {
			if failed[u.Name] && alive[u.Name] {
				delete(alive, u.Name)
				results[i].BuildLog = extractLog(string(out), u.Name)
				os.RemoveAll(filepath.Join(dir, u.Name))
				progress = true
			}
		}
		if !progress {
			return nil, fmt.Errorf("go build of the scratch module failed and no failing unit could be identified:\n%s", trim(string(out), 4000))
		}
	}
	return nil, fmt.Errorf("go build of the scratch module keeps failing")
}

// goCache returns the build cache shared by all batches of one check run (throw-away: the
// driver removes it with the scratch directory).
func goCache(dir string) string {
	if c := os.Getenv("VERIF_GOCACHE"); c != "" {
		return c
	}
	return filepath.Join(filepath.Dir(dir), "gocache")
}

func extractLog(out, unit string) string {
	var lines []string
	for _, l := range strings.Split(out, "\n") {
		if strings.Contains(l, unit+"/") || strings.Contains(l, "scratch/"+unit) {
			lines = append(lines, l)
		}
	}
	return trim(strings.Join(lines, "\n"), 3000)
}

// Vet runs go vet on the given unit packages and returns the output per failing unit.
func Vet(dir string, names []string, goBin string) map[string]string {
	ret := map[string]string{}
	if len(names) == 0 {
		return ret
	}
	args := []string{"vet"}
	for _, n := range names {
		args = append(args, "./"+n+"/...")
	}
	cmd := exec.Command(goBin, args...)
	cmd.Dir = dir
	cmd.Env = append(os.Environ(), "GOFLAGS=-mod=mod", "GOPROXY=off", "GOSUMDB=off", "GOTOOLCHAIN=local", "GOCACHE="+goCache(dir))
	out, err := cmd.CombinedOutput()
	if err == nil {
		return ret
	}
	for _, n := range names {
		if l := extractLog(string(out), n); l != "" {
			ret[n] = l
		}
	}
	if len(ret) == 0 {
		ret["?"] = trim(string(out), 2000)
	}
	return ret
}

func (r *Runner) start() error {
	cmd := exec.Command(r.bin)
	cmd.Dir = r.dir
	cmd.Env = append(os.Environ(), r.Env...)
	in, err := cmd.StdinPipe()
	if err != nil {
		return err
	}
	out, err := cmd.StdoutPipe()
	if err != nil {
		return err
	}
	cmd.Stderr = io.Discard
	if err := cmd.Start(); err != nil {
		return err
	}
	r.cmd, r.in, r.out = cmd, in, bufio.NewReaderSize(out, 1<<20)
	return nil
}

// Close stops the driver process.
func (r *Runner) Close() {
	if r.cmd != nil {
		r.in.Close()
		r.cmd.Process.Kill()
		r.cmd.Wait()
		r.cmd = nil
	}
}

// ErrHang is returned when the driver did not answer within the timeout.
var ErrHang = fmt.Errorf("driver did not answer in time")

// ErrDied is returned when the driver process exited while serving the request.
var ErrDied = fmt.Errorf("driver process died")

// Run executes one request. A panic inside the generated code is returned as panicMsg.
func (r *Runner) Run(unit string, entry int, src, arg string) (out string, panicMsg string, err error) {
	if r.cmd == nil {
		if err := r.start(); err != nil {
			return "", "", err
		}
	}
	data, _ := json.Marshal(request{unit, entry, []byte(src), arg})
	type result struct {
		line []byte
		err  error
	}
	ch := make(chan result, 1)
	go func() {
		if _, err := r.in.Write(append(data, '\n')); err != nil {
			ch <- result{nil, err}
			return
		}
		line, err := r.out.ReadBytes('\n')
		ch <- result{line, err}
	}()
	select {
	case res := <-ch:
		if res.err != nil {
			r.Close()
			return "", "", ErrDied
		}
		var resp response
		if err := json.Unmarshal(res.line, &resp); err != nil {
			r.Close()
			return "", "", fmt.Errorf("bad driver response: %v", err)
		}
		return resp.Out, resp.Panic, nil
	case <-time.After(r.Timeout):
		r.Close()
		return "", "", ErrHang
	}
}
